import warnings; warnings.filterwarnings("ignore")
import numpy as np, copy
from mabwiser.mab import MAB, LearningPolicy as LP, NeighborhoodPolicy as NP

print("== Popularity partial_fit batch omits an arm")
m = MAB([1,2,3], LP.Popularity(), seed=1)
m.fit([1,2,3,1],[1,2,3,3])
print(m._imp.arm_to_expectation)
m.partial_fit([1],[5])
print(m._imp.arm_to_expectation, "sum", sum(m._imp.arm_to_expectation.values()))
s=m._imp.arm_to_sum; c=m._imp.arm_to_count
means={a:s[a]/c[a] for a in s}; t=sum(means.values()); print("oracle", {a:means[a]/t for a in means})

print("== LinUCB never-observed arm, lambda != 1")
for lam in (1.0, 4.0):
    m = MAB([1,2], LP.LinUCB(alpha=1.0, l2_lambda=lam), seed=1)
    m.fit([1,1],[1.,2.],[[1.,0.],[0.,1.]])
    x=np.array([[1.,2.]])
    print(lam, m.predict_expectations(x), "oracle arm2 bonus", np.sqrt(x@np.linalg.inv(lam*np.eye(2))@x.T)[0,0])

print("== LinTS d=1 m>1")
m = MAB([1,2], LP.LinTS(alpha=1e-9, l2_lambda=1.0), seed=1)
m.fit([1,1,2,2],[1.,2.,3.,1.],[[1.],[2.],[1.],[3.]])
try:
    print(m.predict_expectations([[1.],[2.],[3.]]))
    b1 = m._imp.arm_to_model[1].beta; b2 = m._imp.arm_to_model[2].beta
    print("oracle", [(x*b1[0], x*b2[0]) for x in (1.,2.,3.)])
except Exception as e: print("EXC", type(e), e)
