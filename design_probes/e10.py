from gen import *
import sys, math, pandas as pd
rs = np.random.RandomState(int(sys.argv[1]) if len(sys.argv)>1 else 0)
probs={}
def note(k, msg): probs.setdefault(k, []).append(msg)
def out(m, ctx, Q):
    a = copy.deepcopy(m); b = copy.deepcopy(m)
    return (a.predict(Q) if ctx else a.predict(), b.predict_expectations(Q) if ctx else b.predict_expectations())
def bad_calls(m, ctx, l, nf):
    arms=m.arms
    d,r,X = data(rs,4,arms,nf=nf)
    calls = {
     "fit_decisions_type": lambda: m.partial_fit("abc", r, X) if ctx else m.partial_fit("abc", r),
     "fit_rewards_type": lambda: m.partial_fit(d, 3.0, X) if ctx else m.partial_fit(d, 3.0),
     "fit_len_mismatch": lambda: m.partial_fit(d, r[:-1], X) if ctx else m.partial_fit(d, r[:-1]),
     "fit_nan_reward": lambda: m.partial_fit(d, np.array([1.,np.nan,0.,1.]), X) if ctx else m.partial_fit(d, np.array([1.,np.nan,0.,1.])),
     "fit_inf_reward": lambda: m.partial_fit(d, np.array([1.,np.inf,0.,1.]), X) if ctx else m.partial_fit(d, np.array([1.,np.inf,0.,1.])),
     "fit_ctx_missing_or_extra": lambda: m.partial_fit(d, r) if ctx else m.partial_fit(d, r, X),
     "refit_nan_reward": lambda: m.fit(d, np.array([1.,np.nan,0.,1.]), X) if ctx else m.fit(d, np.array([1.,np.nan,0.,1.])),
     "refit_len_mismatch": lambda: m.fit(d[:-1], r, X) if ctx else m.fit(d[:-1], r),
     "add_dup": lambda: m.add_arm(arms[0]),
     "add_none": lambda: m.add_arm(None),
     "add_nan": lambda: m.add_arm(np.nan),
     "add_inf": lambda: m.add_arm(np.inf),
     "rem_unknown": lambda: m.remove_arm("zzz"),
     "add_binarizer_non_ts": (lambda: m.add_arm("new", lambda a,x: x>0)) if l!="ts" else None,
     "add_binarizer_noncallable": (lambda: m.add_arm("new", 5)) if l=="ts" else None,
     "warm_not_dict": lambda: m.warm_start([1,2], 0.5),
     "warm_q_type": lambda: m.warm_start({a:[1.,2.] for a in arms}, 1),
     "warm_q_range": lambda: m.warm_start({a:[1.,2.] for a in arms}, 1.5),
     "warm_keys": lambda: m.warm_start({a:[1.,2.] for a in arms[:-1]}, 0.5),
     "pred_ctx_missing": (lambda: m.predict()) if ctx else None,
     "pred_ctx_type": lambda: m.predict("abc"),
     "pred_ctx_1d": lambda: m.predict([1.,2.,3.]),
     "pe_ctx_1d": lambda: m.predict_expectations(np.array([1.,2.,3.])),
    }
    if ctx:
        calls["fit_ctx_len"] = lambda: m.partial_fit(d, r, X[:-1])
        calls["fit_ctx_1d"] = lambda: m.partial_fit(d, r, [1.,2.,3.,4.])
        calls["pfit_feature_count"] = lambda: m.partial_fit(d, r, np.ones((4,nf+2)))
    if l=="ts":
        calls["fit_nonbinary"] = lambda: m.partial_fit(d, np.array([0.,2.,1.,0.]), X) if ctx else m.partial_fit(d, np.array([0.,2.,1.,0.]))
    return {k:v for k,v in calls.items() if v}
for l,p in combos():
    ctx = is_ctx(l,p)
    arms=[0,1,2]; seed=int(rs.randint(999))
    base = MAB(list(arms), LPS[l](), NPS[p](), seed=seed)
    d,r,X = data(rs,20,arms)
    base.fit(d,r,X) if ctx else base.fit(d,r)
    d1,r1,X1=data(rs,3,arms); base.partial_fit(d1,r1,X1) if ctx else base.partial_fit(d1,r1)
    names = list(bad_calls(copy.deepcopy(base), ctx, l, 3).keys())
    for nm in names:
        m = copy.deepcopy(base); twin = copy.deepcopy(base)
        call = bad_calls(m, ctx, l, 3)[nm]
        try:
            call(); note("NOT_REJECTED",(l,p,nm)); continue
        except BaseException as e: et=type(e).__name__
        if m.arms!=twin.arms: note("arms_changed",(l,p,nm))
        d2,r2,X2 = data(rs,5,arms); Q=rs.randint(0,4,(3,3)).astype(float)
        try:
            for o in (m,twin):
                o.partial_fit(d2,r2,X2) if ctx else o.partial_fit(d2,r2)
            o1,o2 = out(m,ctx,Q), out(twin,ctx,Q)
            if str(o1)!=str(o2): note("DIVERGED",(l,p,nm,et))
        except Exception as e2:
            note("CONT_EXC",(l,p,nm,et,type(e2).__name__,str(e2)[:60]))
    # before fit
    m0 = MAB(list(arms), LPS[l](), NPS[p](), seed=seed)
    for nm,f in [("predict_before_fit", lambda: m0.predict(X[:2]) if ctx else m0.predict()), ("pe_before_fit", lambda: m0.predict_expectations(X[:2]) if ctx else m0.predict_expectations())]:
        try: f(); note("NOT_REJECTED",(l,p,nm))
        except Exception: pass
import collections
for k,v in probs.items():
    print(k, len(v)); c=collections.Counter((x[1] if k!="NOT_REJECTED" else "-", x[2]) for x in v); print("   ", dict(c))
print("done")
