from gen import *
import sys, math
rs = np.random.RandomState(int(sys.argv[1]) if len(sys.argv)>1 else 0)
probs={}
def note(k, msg): probs.setdefault(k, []).append(msg)
def outs(m, ctx, Q):
    a = copy.deepcopy(m); b = copy.deepcopy(m)
    return (a.predict(Q) if ctx else a.predict(), b.predict_expectations(Q) if ctx else b.predict_expectations())
def ren(o, mp):
    if isinstance(o, list): return [ren(x,mp) for x in o]
    if isinstance(o, dict): return {mp[k]:v for k,v in o.items()}
    return mp[o]
def close(a,b,tol):
    if isinstance(a,list): return all(close(x,y,tol) for x,y in zip(a,b))
    return list(a.keys())==list(b.keys()) and all((np.isnan(a[k]) and np.isnan(b[k])) or abs(a[k]-b[k])<=tol*(1+abs(a[k])) for k in a)
for l,p in combos():
    ctx=is_ctx(l,p)
    for trial in range(4):
        arms=[0,1,2]; seed=int(rs.randint(999))
        n=int(rs.randint(15,30)); d,r,X=data(rs,n,arms); Q=rs.randint(0,4,(3,3)).astype(float)
        m=MAB(list(arms),LPS[l](),NPS[p](),seed=seed); m.fit(d,r,X) if ctx else m.fit(d,r)
        base=outs(m,ctx,Q)
        # relabel
        for lt,mp in (("str",{0:"x",1:"y",2:"z"}),("float",{0:0.5,1:1.25,2:7.0}),("str_rev",{0:"z",1:"y",2:"x"}),("neg",{0:-3,1:10,2:4})):
            m2=MAB([mp[a] for a in arms],LPS[l](),NPS[p](),seed=seed); d2=np.array([mp[a] for a in d.tolist()])
            m2.fit(d2,r,X) if ctx else m2.fit(d2,r)
            o2=outs(m2,ctx,Q)
            if str((ren(base[0],mp),ren(base[1],mp)))!=str(o2): note("relabel",(l,p,lt))
        # permutation
        if p in ("none","rad","lsh"):
            perm=rs.permutation(n)
            m3=MAB(list(arms),LPS[l](),NPS[p](),seed=seed); m3.fit(d[perm],r[perm],X[perm]) if ctx else m3.fit(d[perm],r[perm])
            o3=outs(m3,ctx,Q)
            if not close(o3[1] if isinstance(o3[1],list) else [o3[1]], base[1] if isinstance(base[1],list) else [base[1]], 1e-9): note("perm",(l,p,trial))
for k,v in probs.items(): print(k, len(v), v[:10])
print("done")
