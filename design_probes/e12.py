from gen import *
import sys, math, itertools
rs = np.random.RandomState(int(sys.argv[1]) if len(sys.argv)>1 else 0)
probs={}; cnt={}
def note(k, msg): probs.setdefault(k, []).append(msg)
def tick(k): cnt[k]=cnt.get(k,0)+1
def dist(metric,a,b):
    a=[int(x) for x in a]; b=[int(x) for x in b]
    if metric=="cityblock": return sum(abs(x-y) for x,y in zip(a,b))
    if metric=="chebyshev": return max(abs(x-y) for x,y in zip(a,b))
    if metric=="sqeuclidean": return sum((x-y)**2 for x,y in zip(a,b))
    if metric=="euclidean": return sum((x-y)**2 for x,y in zip(a,b))   # squared, compare to r^2
def same(a,b): return str(a)==str(b)
CF = {"eg0":lambda: LP.EpsilonGreedy(0),"ucb":lambda: LP.UCB1(1.5),"linucb":lambda: LP.LinUCB(1.,1.)}
for trial in range(60):
    l = ["eg0","ucb","linucb"][trial%3]; arms=[0,1,2]; seed=int(rs.randint(999))
    metric=["cityblock","chebyshev","sqeuclidean","euclidean"][trial%4]
    n=int(rs.randint(8,25)); d,r,X=data(rs,n,arms,nf=int(rs.randint(1,4)),binary=False); nf=X.shape[1]
    cut=int(rs.randint(3,n))
    Q=rs.randint(0,4,(4,nf)).astype(float)
    # radius: choose boundary distances
    dd=sorted(set(dist(metric,x,Q[0]) for x in X)); 
    rad2 = dd[int(rs.randint(len(dd)))] if dd[-1]>0 else 1
    if rad2==0: rad2=1
    radius = math.sqrt(rad2) if metric=="euclidean" else float(rad2)
    for kind in ("rad","knn"):
        k=int(rs.randint(1,min(n,6)))
        npol = NP.Radius(radius,metric,[0.,1.,0.]) if kind=="rad" else NP.KNearest(k,metric)
        m=MAB(list(arms),CF[l](),npol,seed=seed); m.fit(d[:cut],r[:cut],X[:cut])
        if cut<n: m.partial_fit(d[cut:],r[cut:],X[cut:])
        ex=m.predict_expectations(Q); pr=m.predict(Q)
        for qi,q in enumerate(Q):
            ds=[dist(metric,x,q) for x in X]
            if kind=="rad":
                sel=[i for i,v in enumerate(ds) if v<=rad2]
                cands=[sel]
            else:
                srt=sorted(ds); dk=srt[k-1]; strict=[i for i,v in enumerate(ds) if v<dk]; ties=[i for i,v in enumerate(ds) if v==dk]
                need=k-len(strict)
                cands=[strict+list(c) for c in itertools.combinations(ties,need)] if math.comb(len(ties),need)<=200 else None
                if cands is None: tick("tie_skip"); continue
            ok=False
            for sel in cands:
                if not sel:
                    ok = all(np.isnan(v) for v in ex[qi].values()) and pr[qi]==1; tick("empty"); 
                else:
                    sel=sorted(sel)
                    o=MAB(list(arms),CF[l](),seed=seed); 
                    o.fit(d[sel],r[sel],X[sel]) if l=="linucb" else o.fit(d[sel],r[sel])
                    oe=o.predict_expectations([list(q)]) if l=="linucb" else o.predict_expectations()
                    if all(abs(oe[a]-ex[qi][a])<=1e-9*(1+abs(oe[a])) for a in arms): ok=True
                if ok: break
            tick(kind)
            if not ok: note(kind,(l,metric,trial,qi,radius if kind=="rad" else k))
print(cnt)
for k,v in probs.items(): print(k, len(v), v[:10])
print("done")
