from gen import *
import sys, math, itertools
rs = np.random.RandomState(int(sys.argv[1]) if len(sys.argv)>1 else 0)
probs={}; cnt={}
def note(k, msg): probs.setdefault(k, []).append(msg)
def tick(k): cnt[k]=cnt.get(k,0)+1
CF = {"eg0":lambda: LP.EpsilonGreedy(0),"ucb":lambda: LP.UCB1(1.5)}
def cf_oracle(l, arms, seed, d, r):
    o=MAB(list(arms),CF[l](),seed=seed); o.fit(d,r); return o.predict_expectations()
def eqd(a,b,arms): return all((np.isnan(a[x]) and np.isnan(b[x])) or abs(a[x]-b[x])<=1e-12*(1+abs(a[x])) for x in arms)
for trial in range(40):
    l=["eg0","ucb"][trial%2]; arms=[0,1,2]; seed=int(rs.randint(999))
    n=int(rs.randint(10,40)); nf=int(rs.randint(1,5)); d,r,X=data(rs,n,arms,nf=nf,binary=False); X=X-1.5
    cut=int(rs.randint(3,n)); nj=int(rs.choice([1,2,3]))
    # ---- LSH
    nd=int(rs.randint(1,5)); nt=int(rs.randint(1,4))
    m=MAB(list(arms),CF[l](),NP.LSHNearest(nd,nt),seed=seed,n_jobs=nj,backend="threading" if nj>1 else None); m.fit(d[:cut],r[:cut],X[:cut])
    pos=cut
    while pos<n:
        k=int(rs.randint(1,6)); m.partial_fit(d[pos:pos+k],r[pos:pos+k],X[pos:pos+k]); pos+=k
    planes=m._imp.table_to_plane
    def sig(x,t): return tuple((np.dot(np.asarray(x)[None,:],planes[t])>0)[0].tolist())
    Q=np.vstack([X[rs.randint(n)][None,:], 4.0*X[rs.randint(n)][None,:], np.zeros((1,nf)), rs.randint(-2,3,(2,nf)).astype(float)])
    ex=m.predict_expectations(Q)
    for qi,q in enumerate(Q):
        sel=sorted(i for i in range(n) if any(sig(X[i],t)==sig(q,t) for t in planes))
        tick("lsh"); 
        if not sel:
            tick("lsh_empty")
            if not all(np.isnan(v) for v in ex[qi].values()): note("lsh_empty",(trial,qi))
        else:
            if not eqd(cf_oracle(l,arms,seed,d[sel],r[sel]),ex[qi],arms): note("lsh",(trial,qi,nd,nt,nj))
    e2=m.predict_expectations(2.0*Q)
    if str(e2)!=str(ex) : note("lsh_scale",(trial,))
    # ---- Clusters
    if n>=6:
        nc=int(rs.randint(2,4)); mb=bool(rs.randint(2))
        m=MAB(list(arms),CF[l](),NP.Clusters(nc,mb),seed=seed); m.fit(d[:cut],r[:cut],X[:cut]) if cut>=nc else m.fit(d,r,X)
        if cut>=nc and cut<n: m.partial_fit(d[cut:],r[cut:],X[cut:])
        lab=m._imp.kmeans.labels_; ql=m._imp.kmeans.predict(Q); ex=m.predict_expectations(Q)
        for qi in range(len(Q)):
            sel=[i for i in range(n) if lab[i]==ql[qi]]; tick("clu")
            if not eqd(cf_oracle(l,arms,seed,d[sel],r[sel]),ex[qi],arms): note("clu",(trial,qi,nc,mb))
    # ---- Tree
    tp = [{} ,{"max_depth":2},{"min_samples_leaf":2}][trial%3]
    m=MAB(list(arms),CF[l](),NP.TreeBandit(dict(tp)),seed=seed); m.fit(d[:cut],r[:cut],X[:cut])
    if cut<n: m.partial_fit(d[cut:],r[cut:],X[cut:])
    ex=m.predict_expectations(Q)
    for qi,q in enumerate(Q):
        tick("tree")
        for a in arms:
            rows=[i for i in range(n) if d[i]==a]
            if not rows: exp=0
            else:
                t=m._imp.arm_to_tree[a]; lf=t.apply([q])[0]; rr=[r[i] for i in rows if t.apply([X[i]])[0]==lf]
                mean=sum(rr)/len(rr); exp = mean if l=="eg0" else mean+1.5*math.sqrt(2*math.log(len(rr))/len(rr))
            if abs(exp-ex[qi][a])>1e-12*(1+abs(exp)): note("tree",(trial,qi,a,exp,ex[qi][a]))
print(cnt)
for k,v in probs.items(): print(k, len(v), v[:10])
print("done")
