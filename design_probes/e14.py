from gen import *
import sys, math
rs = np.random.RandomState(int(sys.argv[1]) if len(sys.argv)>1 else 0)
probs={}; cnt={}
def note(k, msg): probs.setdefault(k, []).append(msg)
def tick(k): cnt[k]=cnt.get(k,0)+1
for trial in range(150):
    kind=["ucb","ts","gr"][trial%3]; arms=[0,1,2,3]; seed=int(rs.randint(999))
    nf=int(rs.choice([1,1,2,3,5])); lam=float(rs.choice([0.01,0.5,1.0,3.0,10.0])); alpha=float(rs.choice([0.,0.5,1.,2.5])); scale=bool(trial%5==0)
    lp = LP.LinUCB(alpha,lam,scale) if kind=="ucb" else (LP.LinTS(1e-9,lam,scale) if kind=="ts" else LP.LinGreedy(0.,lam,scale))
    n=int(rs.randint(6,40)); obs=arms[:int(rs.randint(1,5))]
    d=np.array([obs[i] for i in rs.randint(0,len(obs),n)]); r=rs.randn(n)*3; X=rs.randn(n,nf)*2+1
    m=MAB(list(arms),lp,seed=seed)
    if scale: m.fit(d,r,X)
    else:
        cut=int(rs.randint(1,n)); m.fit(d[:cut],r[:cut],X[:cut]); pos=cut
        while pos<n:
            k=int(rs.randint(1,8)); m.partial_fit(d[pos:pos+k],r[pos:pos+k],X[pos:pos+k]); pos+=k
    mq=int(rs.choice([1,2,5])); Q=rs.randn(mq,nf)*2
    ex=m.predict_expectations(Q); ex=ex if isinstance(ex,list) else [ex]
    for a in arms:
        rows=np.where(d==a)[0]
        Xa=X[rows]; ya=r[rows]; Qa=Q
        if scale and len(rows):
            mu=Xa.mean(0); sd=Xa.std(0); sd=np.where(sd<=1e-6,1.0,sd); Xa=(Xa-mu)/sd; Qa=(Q-mu)/sd
        A=Xa.T@Xa+lam*np.eye(nf); beta=np.linalg.solve(A,Xa.T@ya) if len(rows) else np.zeros(nf)
        for qi in range(mq):
            x=Qa[qi]; mean=float(x@beta); bonus=alpha*math.sqrt(float(x@np.linalg.solve(A,x))) if kind=="ucb" else 0.
            exp=mean+bonus; got=ex[qi][a]; tick("chk")
            tol=1e-6*(1+abs(exp))
            if abs(got-exp)>tol:
                note("mismatch" if len(rows) else "unobserved",(kind,nf,lam,alpha,scale,mq,len(rows),round(got,6),round(exp,6)))
print(cnt)
import collections
for k,v in probs.items(): print(k, len(v), v[:6]); print(collections.Counter((x[0],x[2]!=1.0) for x in v))
print("done")
