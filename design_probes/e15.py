from gen import *
import sys, math, logging
from mabwiser.simulator import Simulator
logging.disable(logging.CRITICAL)
rs = np.random.RandomState(int(sys.argv[1]) if len(sys.argv)>1 else 0)
probs={}; cnt={}
def note(k, msg): probs.setdefault(k, []).append(msg)
def tick(k): cnt[k]=cnt.get(k,0)+1
def stats(x):
    x=np.asarray(x,float); return {'count':x.size,'sum':x.sum(),'min':x.min(),'max':x.max(),'mean':x.mean(),'std':x.std()} if x.size else {'count':0,'sum':0,'min':0,'max':0,'mean':0,'std':0}
cl=list(combos())
for trial in range(40):
    arms=[0,1,2,3]; n=int(rs.randint(20,70)); used=arms[:int(rs.randint(2,5))]
    d=np.array([used[i] for i in rs.randint(0,len(used),n)]); r=rs.randint(0,2,n).astype(float); X=rs.randint(0,4,(n,3)).astype(float)
    ts=float(rs.choice([0.1,0.25,0.3,0.5,0.7])); ordered=bool(rs.randint(2)); isq=bool(rs.randint(2))
    ntest_guess=max(1,math.ceil(n*ts)-1); bs=int(rs.choice([0,1,2,5,ntest_guess]))
    if bs>math.ceil(n*ts): bs=0
    picks=[cl[i] for i in rs.choice(len(cl),4,replace=False)]
    bandits=[(f"{l}/{p}/{i}",MAB(list(arms),LPS[l](),NPS[p](),seed=int(rs.randint(99)))) for i,(l,p) in enumerate(picks)]
    try:
        s=Simulator(bandits,d,r,X,test_size=ts,is_ordered=ordered,batch_size=bs,seed=int(rs.randint(99)),is_quick=isq); s.run()
    except Exception as e:
        note("SIMEXC",(trial,[b[0] for b in bandits],n,ts,bs,type(e).__name__,str(e)[:80])); continue
    tick("sims")
    ti=list(s.test_indices); tr=[i for i in range(n) if i not in set(ti)]
    if len(set(ti))!=len(ti) or not set(ti)<=set(range(n)): note("indices",(trial,))
    if ordered and ti!=list(range(n-len(ti),n)): note("ordered",(trial,))
    for a in arms:
        for nm,idx,st in (("total",list(range(n)),s.arm_to_stats_total),("train",tr,s.arm_to_stats_train),("test",ti,s.arm_to_stats_test)):
            o=stats([r[i] for i in idx if d[i]==a])
            if any(abs(o[k]-st[a][k])>1e-9 for k in o): note("stats",(trial,nm,a,o,st[a]))
        if s.arm_to_stats_train[a]['count']+s.arm_to_stats_test[a]['count']!=s.arm_to_stats_total[a]['count']: note("cons",(trial,a))
    for nm,_ in bandits:
        if len(s.bandit_to_predictions[nm])!=len(ti): note("npred",(trial,nm,len(s.bandit_to_predictions[nm]),len(ti)))
        if any(x not in arms for x in s.bandit_to_predictions[nm]): note("predmember",(trial,nm))
        def chk(mn,av,mx,ntest,tag):
            c=sum(av[a]['count'] for a in arms)
            if c!=ntest: note("evalcount",(trial,nm,tag,c,ntest))
            for a in arms:
                if av[a]['count']:
                    if not (mn[a]['sum']<=av[a]['sum']+1e-9<=mx[a]['sum']+2e-9): note("order",(trial,nm,tag,a,mn[a]['sum'],av[a]['sum'],mx[a]['sum']))
        if bs==0: chk(s.bandit_to_arm_to_stats_min[nm],s.bandit_to_arm_to_stats_avg[nm],s.bandit_to_arm_to_stats_max[nm],len(ti),"off")
        else:
            nb=math.ceil(len(ti)/bs)
            for i in range(nb):
                chk(s.bandit_to_arm_to_stats_min[nm][i],s.bandit_to_arm_to_stats_avg[nm][i],s.bandit_to_arm_to_stats_max[nm][i],min(bs,len(ti)-i*bs),f"b{i}")
            chk(s.bandit_to_arm_to_stats_min[nm]['total'],s.bandit_to_arm_to_stats_avg[nm]['total'],s.bandit_to_arm_to_stats_max[nm]['total'],len(ti),"total")
        # default evaluator recomputation (non-nn or quick)
print(cnt)
for k,v in probs.items(): print(k, len(v), v[:6])
print("done")
