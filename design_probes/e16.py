from gen import *
import sys, hashlib, json
mode=sys.argv[1]
def scenario(l,p,seed,interleave):
    rs=np.random.RandomState(12345)  # scenario data fixed
    arms=["a","b","c"]; ctx=is_ctx(l,p)
    def other():
        if not interleave: return
        ors=np.random.RandomState(99)
        for (ol,op) in [("ts","tree"),("eg3","tree"),("lints","clu"),("sm","lsh"),("ucb","tree")]:
            o=MAB([1,2,3],LPS[ol](),NPS[op](),seed=int(ors.randint(999)))
            d,r,X=data(ors,15,[1,2,3]); o.fit(d,r,X); o.predict(X[:3])
    other()
    m=MAB(list(arms),LPS[l](),NPS[p](),seed=seed); other()
    d,r,X=data(rs,25,arms); 
    # craft ties for trees: duplicate feature columns
    X[:,1]=X[:,0]
    m.fit(d,r,X) if ctx else m.fit(d,r); other()
    outs=[]
    Q=rs.randint(0,4,(4,3)).astype(float); Q[:,1]=Q[:,0]
    outs.append(m.predict(Q) if ctx else m.predict()); other()
    outs.append(m.predict_expectations(Q) if ctx else m.predict_expectations()); other()
    d2,r2,X2=data(rs,6,arms); X2[:,1]=X2[:,0]; m.partial_fit(d2,r2,X2) if ctx else m.partial_fit(d2,r2); other()
    m.add_arm("d"); other()
    outs.append(m.predict_expectations(Q) if ctx else m.predict_expectations())
    return hashlib.sha256(repr(outs).encode()).hexdigest()[:12]
res={}
for l,p in combos():
    res[f"{l}/{p}"]=scenario(l,p,77,mode=="inter")
print(json.dumps(res))
