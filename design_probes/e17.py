import warnings; warnings.filterwarnings("ignore")
import numpy as np
from mabwiser.mab import MAB, LearningPolicy as LP, NeighborhoodPolicy as NP
X=np.array([[0,0],[0,1],[1,0],[1,1]]*3,float); y=np.array([0,1,1,0]*3,float)+np.arange(12)*0.0; d=np.array([1]*12)
# asymmetric leaf content so that which feature is split first matters with max_depth=1
X=np.array([[0,0],[0,1],[1,0],[1,1],[0,0],[1,1]],float); y=np.array([1.,0.,0.,1.,1.,1.]); d=np.array([1]*6)
def run(other_seeds):
    a=MAB([1,2],LP.EpsilonGreedy(0),NP.TreeBandit(),seed=1)
    for s in other_seeds: MAB([1,2],LP.EpsilonGreedy(0),NP.TreeBandit(),seed=s)
    a.fit(d,y,X)
    t=a._imp.arm_to_tree[1]
    return t.get_params()["random_state"], t.tree_.feature[:3].tolist(), a.predict_expectations([[0.,1.],[1.,0.]])
print(run([]))
for s in range(2,8): print(s, run([s]))
