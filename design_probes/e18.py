import warnings; warnings.filterwarnings("ignore")
import sys, threading, time, os, random
import numpy as np
from mabwiser.mab import MAB, LearningPolicy as LP, NeighborhoodPolicy as NP
import mabwiser, mabwiser.ucb
mon = sys.monitoring
TOOL = 3
mon.use_tool_id(TOOL, "verif")
ev = mon.events
log=[]; lock=threading.Lock(); rnd=random.Random(1)
ROOT=os.path.dirname(mabwiser.__file__)
def on_start(code, off):
    if code.co_name=="_fit_arm":
        with lock: log.append(("S",threading.get_ident()))
    elif not code.co_filename.startswith(ROOT): return mon.DISABLE
def on_ret(code, off, val):
    if code.co_name=="_fit_arm":
        with lock: log.append(("R",threading.get_ident()))
def on_line(code, line):
    if not code.co_filename.startswith(ROOT): return mon.DISABLE
    if code.co_name=="_fit_arm":
        if rnd.random()<0.5: time.sleep(0)
mon.register_callback(TOOL, ev.PY_START, on_start); mon.register_callback(TOOL, ev.PY_RETURN, on_ret); mon.register_callback(TOOL, ev.LINE, on_line)
rs=np.random.RandomState(0); arms=list(range(6)); d=rs.randint(0,6,200); r=rs.rand(200)
ref=MAB(arms,LP.UCB1(1.0),seed=1); ref.fit(d,r); ref.partial_fit(d[:50],r[:50]); refe=ref.predict_expectations()
sys.setswitchinterval(1e-6)
pats=set(); bad=0; t0=time.time()
mon.set_events(TOOL, ev.PY_START|ev.PY_RETURN|ev.LINE)
for it in range(60):
    log.clear()
    m=MAB(arms,LP.UCB1(1.0),seed=1,n_jobs=4); m.fit(d,r); m.partial_fit(d[:50],r[:50])
    tid={}; pat=tuple((k,tid.setdefault(t,len(tid))) for k,t in log); pats.add(pat)
    if m.predict_expectations()!=refe: bad+=1
mon.set_events(TOOL, 0)
ov=sum(1 for p in pats if any(p[i][0]=="S" and p[i+1][0]=="S" for i in range(len(p)-1)))
print("runs 60, distinct start/return interleavings:", len(pats), "with overlapping tasks:", ov, "mismatches:", bad, "time %.1fs"%(time.time()-t0))
