import warnings; warnings.filterwarnings("ignore")
import numpy as np, pandas as pd, copy
from mabwiser.mab import MAB, LearningPolicy as LP, NeighborhoodPolicy as NP
rs=np.random.RandomState(0)
arms=["a","b","c"]; n=30
d=[arms[i] for i in rs.randint(0,3,n)]; r=[float(x) for x in rs.randint(0,2,n)]; X=rs.randint(0,4,(n,3)).astype(float).tolist()
print(type(pd.Series(d).values), pd.Series(d).dtype)
def variants():
    yield "list", d, r, X
    yield "nd", np.array(d), np.array(r), np.array(X)
    yield "nd_int_F", np.array(d), np.array(r).astype(int), np.asfortranarray(np.array(X).astype(int))
    yield "series_df", pd.Series(d), pd.Series(r), pd.DataFrame(X)
    yield "series_idx", pd.Series(d, index=range(100,100+n)), pd.Series(r, index=range(100,100+n)), pd.DataFrame(X, index=range(100,100+n))
    yield "obj", np.array(d, dtype=object), np.array(r), np.array(X)[:, ::1]
    big=np.zeros((2*n,6)); big[::2, ::2]=np.array(X); yield "noncontig", np.array(d), np.array(r), big[::2, ::2]
from gen import LPS, NPS, combos, is_ctx
bad=[]
for l,p in combos():
    ctx=is_ctx(l,p); ref=None
    for nm,dd,rr,XX in variants():
        try:
            m=MAB(list(arms),LPS[l](),NPS[p](),seed=3)
            m.fit(dd,rr,XX) if ctx else m.fit(dd,rr)
            Q = XX[:4] if not isinstance(XX, pd.DataFrame) else XX.iloc[:4]
            o=(m.predict_expectations(Q) if ctx else m.predict_expectations(), m.predict(Q) if ctx else m.predict())
            if ref is None: ref=str(o)
            elif str(o)!=ref: bad.append((l,p,nm,"DIFF"))
        except Exception as e: bad.append((l,p,nm,type(e).__name__,str(e)[:60]))
import collections
print(len(bad)); print(collections.Counter((b[2],b[3]) for b in bad)); print(bad[:8])
