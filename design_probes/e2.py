import warnings; warnings.filterwarnings("ignore")
import numpy as np, copy
from mabwiser.mab import MAB, LearningPolicy as LP, NeighborhoodPolicy as NP
rs = np.random.RandomState(0)

print("== LSH fit twice: stale buckets")
X1 = rs.randn(30,3); d1 = rs.randint(0,2,30); r1 = rs.rand(30)
X2 = rs.randn(5,3); d2 = rs.randint(0,2,5); r2 = rs.rand(5)
m = MAB([0,1], LP.EpsilonGreedy(0), NP.LSHNearest(2,2), seed=3)
m.fit(d1,r1,X1)
rng_state = copy.deepcopy(m._rng.rng.bit_generator.state)
m.fit(d2,r2,X2)
sizes = {k:{h:len(v) for h,v in t.items()} for k,t in m._imp.table_to_hash_to_index.items()}
print("bucket sizes after 2nd fit (5 rows):", sizes)
try:
    print(m.predict_expectations(X2[:2]))
except Exception as e: print("EXC", type(e).__name__, e)

print("== Neighbors partial_fit with wrong feature count, then continue")
m = MAB([0,1], LP.EpsilonGreedy(0), NP.KNearest(2), seed=3)
m.fit(d1,r1,X1)
try: m.partial_fit([0,1],[1.,2.],[[1.,2.],[3.,4.]])
except Exception as e: print("rejected:", type(e).__name__, e)
print("len decisions/rewards/contexts", len(m._imp.decisions), len(m._imp.rewards), len(m._imp.contexts))

print("== Clusters partial_fit wrong feature count")
m = MAB([0,1], LP.EpsilonGreedy(0), NP.Clusters(2), seed=3)
m.fit(d1,r1,X1)
try: m.partial_fit([0,1],[1.,2.],[[1.,2.],[3.,4.]])
except Exception as e: print("rejected:", type(e).__name__, e)
print("len decisions/rewards/contexts", len(m._imp.decisions), len(m._imp.rewards), len(m._imp.contexts))

print("== TreeBandit tree_parameters mutated / shared default")
tp = {"max_depth": 2}
m = MAB([0,1], LP.UCB1(), NP.TreeBandit(tp), seed=3); print("caller dict:", tp)
a = MAB([0,1], LP.UCB1(), NP.TreeBandit(), seed=11)
b = MAB([0,1], LP.UCB1(), NP.TreeBandit(), seed=22)
print("a.tree_parameters", a._imp.tree_parameters, "is shared:", a._imp.tree_parameters is b._imp.tree_parameters, NP.TreeBandit().tree_parameters)

print("== Neighbors add_arm: empty-nhood expectation of new arm")
m = MAB([0,1], LP.EpsilonGreedy(0), NP.Radius(0.001), seed=3)
m.fit(d1,r1,X1); m.add_arm(2)
print(m.predict_expectations([[100.,100.,100.]]))
