from gen import *
rs=np.random.RandomState(0)
arms=[0,1,2]; d,r,X=data(rs,60,arms); Q=rs.randint(0,4,(7,3)).astype(float)
def b1(a,x): return x>0.5
def b2(a,x): return x>=0.0   # idempotent on {0,1}? b2(1)=1,b2(0)=1 -> b2(b2(x)) = 1 = b2(x) yes idempotent
print("== K2 defect-aware model: loky == per-chunk deepcopy simulation")
for lname,lp in (("ts",LP.ThompsonSampling()),("eg3",LP.EpsilonGreedy(0.3))):
    for nj,be in ((3,None),(2,"multiprocessing"),(7,"loky")):
        m=MAB(arms,lp,NP.TreeBandit(),seed=7,n_jobs=nj,backend=be); m.fit(d,r,X)
        ref=copy.deepcopy(m)
        got=m.predict_expectations(Q)
        imp=ref._imp; n_jobs,_,starts=imp._partition_contexts(len(Q)); seeds=imp.rng.randint(np.iinfo(np.int32).max,size=len(Q))
        sim=[]
        for i in range(n_jobs):
            c=copy.deepcopy(imp); sim+=c._predict_contexts(Q[starts[i]:starts[i+1]],False,seeds[starts[i]:starts[i+1]],starts[i])
        print(lname,nj,be,"model==observed:",str(sim)==str(got))
print("== C14 add_arm with new binarizer, idempotent binarizers, all NPs")
for name, npol in [("none", None), ("Radius", NP.Radius(2.0)), ("KNN", NP.KNearest(8)), ("LSH", NP.LSHNearest(2,2)), ("Clusters", NP.Clusters(2)), ("Tree", NP.TreeBandit())]:
    rr=rs.randint(0,10,60)/10.0
    a=MAB([0,1,2],LP.ThompsonSampling(b1),npol,seed=5); b=MAB([0,1,2],LP.ThompsonSampling(),npol,seed=5)
    c1=np.array([float(b1(x,y)) for x,y in zip(d,rr)])
    args=lambda dd,yy,XX: (dd,yy) if npol is None else (dd,yy,XX)
    a.fit(*args(d[:40],rr[:40],X[:40])); b.fit(*args(d[:40],c1[:40],X[:40]))
    a.add_arm(3,b2); b.add_arm(3)
    d2=d[40:].copy(); d2[::3]=3
    c2=np.array([float(b2(x,y)) for x,y in zip(d2,rr[40:])])
    a.partial_fit(*args(d2,rr[40:],X[40:])); b.partial_fit(*args(d2,c2,X[40:]))
    oa=a.predict_expectations(Q) if npol else a.predict_expectations(); ob=b.predict_expectations(Q) if npol else b.predict_expectations()
    print(name, str(oa)==str(ob))
