from gen import *
import itertools, sys
rs=np.random.RandomState(int(sys.argv[1]) if len(sys.argv)>1 else 0)
bad=[]; n_chk=0
for l,p in combos():
    if p=="none": continue
    arms=[0,1,2]; d,r,X=data(rs,40,arms); X=X+rs.rand(*X.shape)*0.01 if p=="clu" else X
    m=MAB(arms,LPS[l](),NPS[p](),seed=int(rs.randint(999))); m.fit(d,r,X)
    n=6; Q=rs.randint(0,4,(n,3)).astype(float); Q=Q+rs.rand(*Q.shape)*0.01 if p=="clu" else Q
    imp=m._imp
    for is_predict in (True,False):
        seeds=np.random.RandomState(5).randint(0,2**31-1,size=n)
        base=copy.deepcopy(imp)._predict_contexts(Q,is_predict,seeds,0)
        for mask in range(2**(n-1)):
            cuts=[0]+[i+1 for i in range(n-1) if mask>>i&1]+[n]
            out=[]
            for a,b in zip(cuts[:-1],cuts[1:]):
                out+=copy.deepcopy(imp)._predict_contexts(Q[a:b],is_predict,seeds[a:b],a)
            n_chk+=1
            if str(out)!=str(base): bad.append((l,p,is_predict,cuts)); break
print("checked",n_chk,"bad",len(bad)); 
import collections; print(collections.Counter((b[0],b[1]) for b in bad))
