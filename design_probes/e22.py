import sys; sys.path.insert(0,"/tmp/exp/deps")
import warnings; warnings.filterwarnings("ignore")
import icontract, numpy as np
from mabwiser.mab import MAB, LearningPolicy as LP, NeighborhoodPolicy as NP
class ShapeBroken(Exception): pass
N={"predict":0,"pe":0}
def n_rows(contexts):
    if contexts is None: return None
    return len(contexts)
def predict_ok(self, contexts, result):
    N["predict"]+=1
    m=n_rows(contexts)
    if m is None or m==1: return (not isinstance(result,list)) and result in self.arms and type(result)==type(self.arms[0])
    return isinstance(result,list) and len(result)==m and all(r in self.arms and type(r)==type(self.arms[0]) for r in result)
def pe_ok(self, contexts, result):
    N["pe"]+=1
    m=n_rows(contexts)
    if m is None or m==1: return isinstance(result,dict) and list(result.keys())==list(self.arms)
    return isinstance(result,list) and len(result)==m and all(list(r.keys())==list(self.arms) for r in result)
MAB.predict = icontract.ensure(predict_ok, error=ShapeBroken)(MAB.predict)
MAB.predict_expectations = icontract.ensure(pe_ok, error=ShapeBroken)(MAB.predict_expectations)
rs=np.random.RandomState(0); d=rs.randint(0,3,30); r=rs.rand(30); X=rs.rand(30,2)
for lp,npol in ((LP.LinUCB(),None),(LP.UCB1(),NP.KNearest(3)),(LP.EpsilonGreedy(),None)):
    m=MAB(["a","b","c"],lp,npol,seed=1); dd=np.array(["a","b","c"])[d]
    m.fit(dd,r,X) if m.is_contextual else m.fit(dd,r)
    print(m.predict(X[:3]) , m.predict(X[:1]), type(m.predict(X[:1])).__name__)
    m.predict_expectations(X[:2]); m.add_arm("z"); m.predict_expectations(X[:1])
    if not m.is_contextual: m.predict(); m.predict_expectations()
print(N)
# break it
import mabwiser.linear as L
orig=L._Linear._vectorized_predict_context
def broken(self, contexts, is_predict):
    out=orig(self,contexts,is_predict); 
    return [out] if not isinstance(out,list) and is_predict else out
L._Linear._vectorized_predict_context=broken
m=MAB([1,2],LP.LinUCB(),seed=1); m.fit(d%2+1,r,X)
try: m.predict(X[:1]); print("not caught")
except ShapeBroken as e: print("caught:", str(e)[:80])
