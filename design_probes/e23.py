from gen import *
import pickle, hashlib
rs=np.random.RandomState(0)
def dig(m): return hashlib.sha256(pickle.dumps(m,5)).hexdigest()[:10]
bad=[]
tp={"max_depth":2}
NPS2=dict(NPS); NPS2["tree2"]=lambda: NP.TreeBandit(tp)
for l in LPS:
    for p in NPS2:
        if p.startswith("tree") and l not in ("eg0","eg3","ucb","ts"): continue
        ctx=is_ctx(l,p.replace("2",""))
        lp=LPS[l](); npol=NPS2[p]()
        A=MAB([0,1,2],lp,npol,seed=11); d,r,X=data(rs,30,[0,1,2]); 
        for stage in ("constructed","fitted"):
            if stage=="fitted": A.fit(d,r,X) if ctx else A.fit(d,r); A.predict(X[:3]) if ctx else A.predict()
            d0=dig(A); d00=dig(A)
            if d0!=d00: bad.append((l,p,stage,"unstable")); continue
            B=MAB([0,1,2],lp,npol,seed=22); 
            if dig(A)!=d0: bad.append((l,p,stage,"after construct B")); continue
            B.fit(d,r,X) if ctx else B.fit(d,r); B.predict(X[:3]) if ctx else B.predict(); B.add_arm(9)
            if dig(A)!=d0: bad.append((l,p,stage,"after use B"))
print(len(bad), bad[:12])
