import warnings; warnings.filterwarnings("ignore")
import logging
import numpy as np, copy
from mabwiser.mab import MAB, LearningPolicy as LP, NeighborhoodPolicy as NP
rs = np.random.RandomState(0)
X1 = rs.randn(60,3); d1 = rs.randint(0,3,60); r1 = rs.randint(0,2,60)
Q = rs.randn(7,3)

def run(lp, npol, n_jobs, backend=None, what="pe"):
    m = MAB([0,1,2], lp, npol, seed=7, n_jobs=n_jobs, backend=backend)
    m.fit(d1, r1, X1)
    return m.predict_expectations(Q) if what=="pe" else m.predict(Q)

for name, lp, npol in [("Tree+TS", LP.ThompsonSampling(), NP.TreeBandit()),
                       ("Tree+EG.3", LP.EpsilonGreedy(0.3), NP.TreeBandit()),
                       ("Tree+UCB", LP.UCB1(), NP.TreeBandit()),
                       ("Radius+LinTS", LP.LinTS(), NP.Radius(2.0)),
                       ("KNN+LinTS", LP.LinTS(), NP.KNearest(10)),
                       ("Clusters+LinTS", LP.LinTS(), NP.Clusters(2)),
                       ("Radius+TS", LP.ThompsonSampling(), NP.Radius(2.0)),
                       ("LSH+Softmax", LP.Softmax(), NP.LSHNearest(2,2)),
                       ("Clusters+TS", LP.ThompsonSampling(), NP.Clusters(2)),
                       ]:
    for what in ("pe","p"):
        base = run(lp, npol, 1, what=what)
        for nj, be in [(2,"threading"),(3,None),(7,"threading")]:
            o = run(lp, npol, nj, be, what)
            same = (str(o)==str(base))
            print(f"{name:16s} {what:3s} n_jobs={nj} backend={be}: same={same}")
