import warnings; warnings.filterwarnings("ignore")
import logging
import numpy as np, copy
from mabwiser.mab import MAB, LearningPolicy as LP, NeighborhoodPolicy as NP
from mabwiser.simulator import Simulator
logging.disable(logging.CRITICAL)
rs = np.random.RandomState(0)

print("== C14 TS binarizer double conversion under TreeBandit")
X = rs.randn(60,3); d = rs.randint(0,2,60); r = rs.randint(0,10,60).astype(float)
def binz(arm, reward): return reward < 0.5      # not idempotent on {0,1}: b(0)=1, b(1)=0
pre = np.array([float(binz(a, x)) for a, x in zip(d, r)])
for name, npol in [("none", None), ("Radius", NP.Radius(2.0)), ("KNN", NP.KNearest(8)), ("LSH", NP.LSHNearest(2,2)), ("Clusters", NP.Clusters(2)), ("Tree", NP.TreeBandit())]:
    a = MAB([0,1], LP.ThompsonSampling(binz), npol, seed=5)
    b = MAB([0,1], LP.ThompsonSampling(), npol, seed=5)
    if npol is None:
        a.fit(d, r); b.fit(d, pre); oa, ob = a.predict_expectations(), b.predict_expectations()
    else:
        a.fit(d, r, X); b.fit(d, pre, X); oa, ob = a.predict_expectations(X[:3]), b.predict_expectations(X[:3])
    print(name, str(oa)==str(ob))

print("== C15 simulator metric cache")
n=60
X = rs.randint(0,5,(n,3)).astype(float); d = rs.randint(0,2,n); r = rs.rand(n)
def sim(bandits):
    s = Simulator(bandits, d, r, X, test_size=0.3, is_ordered=True, batch_size=0, seed=1)
    s.run(); return s
mk = lambda metric: MAB([0,1], LP.EpsilonGreedy(0), NP.Radius(3.0, metric), seed=5)
s_alone = sim([("cheb", mk("chebyshev"))])
s_pair = sim([("city", mk("cityblock")), ("cheb", mk("chebyshev"))])
print("cheb alone vs after cityblock bandit: same predictions:", s_alone.bandit_to_predictions["cheb"] == s_pair.bandit_to_predictions["cheb"])
# public API replay
m = mk("chebyshev"); tr = int(n*0.7); m.fit(d[:tr], r[:tr], X[:tr]); api = m.predict(X[tr:])
print("alone == api:", s_alone.bandit_to_predictions["cheb"]==api, " pair == api:", s_pair.bandit_to_predictions["cheb"]==api)
