import warnings; warnings.filterwarnings("ignore")
import logging, itertools, copy, math, sys
import numpy as np
from mabwiser.mab import MAB, LearningPolicy as LP, NeighborhoodPolicy as NP
from mabwiser.simulator import Simulator
logging.disable(logging.CRITICAL)

def eq(a,b):
    return str(a)==str(b)

def replay(mab, d, r, X, test_idx_order, train_idx, batch_size, kind):
    m = copy.deepcopy(mab)
    ctx = X is not None and m.is_contextual
    trd, trr = d[train_idx], r[train_idx]
    ted, ter = d[test_idx_order], r[test_idx_order]
    if ctx:
        trX, teX = X[train_idx], X[test_idx_order]
        m.fit(trd, trr, trX)
    else:
        m.fit(trd, trr)
    preds=[]
    if batch_size==0:
        if ctx:
            p = m.predict(teX); preds = p if isinstance(p,list) else [p]
        else:
            preds=[m.predict() for _ in range(len(ted))]
        return preds
    start=0
    while start < len(ted):
        stop=min(start+batch_size,len(ted))
        if ctx:
            p = m.predict(teX[start:stop]); p = p if isinstance(p,list) else [p]
            if kind != "nn": m.predict_expectations(teX[start:stop])
            preds+=p
            m.partial_fit(ted[start:stop], ter[start:stop], teX[start:stop])
        else:
            preds+=[m.predict() for _ in range(stop-start)]
            m.partial_fit(ted[start:stop], ter[start:stop])
        start=stop
    return preds

rs = np.random.RandomState(int(sys.argv[1]) if len(sys.argv)>1 else 0)
lps = {"eg0":LP.EpsilonGreedy(0),"eg3":LP.EpsilonGreedy(.3),"ucb":LP.UCB1(1.),"ts":LP.ThompsonSampling(),"sm":LP.Softmax(),"pop":LP.Popularity(),"rnd":LP.Random(),
       "linucb":LP.LinUCB(1.,1.),"lints":LP.LinTS(1.,1.),"lingr":LP.LinGreedy(0.2,1.)}
nps = {"none":None,"rad":NP.Radius(3.0,"cityblock"),"rad2":NP.Radius(1.5,"euclidean",), "knn":NP.KNearest(4,"chebyshev"),"lsh":NP.LSHNearest(2,2),"clu":NP.Clusters(2),"tree":NP.TreeBandit()}
bad=0; tot=0
for trial in range(12):
    n = rs.randint(30,60)
    X = rs.randint(0,4,(n,3)).astype(float); d = rs.randint(0,3,n); r = rs.randint(0,2,n).astype(float)
    ts = float(rs.choice([0.2,0.3,0.5])); ordered=bool(rs.randint(2)); 
    ntest = n - int(n*(1-ts)) if ordered else None
    names = list(itertools.product(lps, nps))
    pick = [names[i] for i in rs.choice(len(names), 6, replace=False)]
    bandits=[]
    for l,p in pick:
        if p=="tree" and l not in ("eg0","eg3","ucb","ts"): continue
        if p=="none" and False: continue
        bandits.append((f"{l}/{p}", MAB([0,1,2], lps[l], nps[p], seed=int(rs.randint(1000)))))
    if not bandits: continue
    for bs in (0, 1, 3, 7):
        isq = bool(rs.randint(2))
        bl = [(nm, copy.deepcopy(m)) for nm,m in bandits]
        try:
            s = Simulator(bl, d, r, X, test_size=ts, is_ordered=ordered, batch_size=bs, seed=7, is_quick=isq)
            s.run()
        except Exception as e:
            print("SIM EXC", trial, bs, [b[0] for b in bl], type(e).__name__, e); continue
        test_idx = list(s.test_indices); train_idx = [i for i in range(n) if i not in set(test_idx)]
        if not ordered:
            from sklearn.model_selection import train_test_split
            tr, te = train_test_split(list(range(n)), test_size=ts, random_state=7); train_idx=tr; assert te==test_idx
        for nm, m in bandits:
            kind = "nn" if nm.split("/")[1] in ("rad","rad2","knn","lsh") else "other"
            try:
                api = replay(m, d, r, X, np.array(test_idx), np.array(train_idx), bs, kind)
            except Exception as e:
                print("API EXC", nm, type(e).__name__, e); continue
            tot+=1
            if not eq(api, s.bandit_to_predictions[nm]):
                bad+=1; print("MISMATCH", trial, nm, "bs",bs,"ordered",ordered,"quick",isq, "first:", [b[0] for b in bl][0])
print("total",tot,"bad",bad)
