import warnings; warnings.filterwarnings("ignore")
import numpy as np, pandas as pd, copy, pickle
from mabwiser.mab import MAB, LearningPolicy as LP, NeighborhoodPolicy as NP
rs = np.random.RandomState(0)
X = rs.randint(0,4,(40,3)).astype(float); d = rs.randint(0,3,40); r = rs.randint(0,2,40).astype(float)
def b1(a, x): return x > 0.5
def b2(a, x): return x > 0.2

print("== C14: add_arm with binarizer under each NP")
for name, npol in [("none", None), ("Radius", NP.Radius(2.0)), ("KNN", NP.KNearest(8)), ("LSH", NP.LSHNearest(2,2)), ("Clusters", NP.Clusters(2)), ("Tree", NP.TreeBandit())]:
    m = MAB([0,1,2], LP.ThompsonSampling(b1), npol, seed=5)
    try:
        if npol is None: m.fit(d, r)
        else: m.fit(d, r, X)
        m.add_arm(3, b2); print(name, "ok")
    except Exception as e: print(name, "EXC", type(e).__name__, e)

print("== C18: context-free predict with contexts in different containers")
m = MAB([0,1,2], LP.EpsilonGreedy(0), seed=5); m.fit(d, r)
for nm, c in [("list", [[1.,2.],[3.,4.]]), ("nd", np.array([[1.,2.],[3.,4.]])), ("df", pd.DataFrame([[1.,2.],[3.,4.]])), ("series", pd.Series([1.,2.]))]:
    try: print(nm, m.predict(c))
    except Exception as e: print(nm, "EXC", type(e).__name__, e)

print("== C18: Series for contextual")
for name, lp, npol in [("linucb", LP.LinUCB(), None), ("knn", LP.EpsilonGreedy(0), NP.KNearest(3)), ("clusters", LP.EpsilonGreedy(0), NP.Clusters(2)), ("tree", LP.UCB1(), NP.TreeBandit()), ("lsh", LP.UCB1(), NP.LSHNearest(2,2)), ("lints/knn", LP.LinTS(), NP.KNearest(5))]:
    m = MAB([0,1,2], lp, npol, seed=5); m.fit(d, r, X)
    try: a = m.predict_expectations(pd.Series(X[0])); b = m.predict_expectations([list(X[0])]); print(name, "multi-feature series ==list:", str(a)==str(b))
    except Exception as e: print(name, "EXC", type(e).__name__, e)
    m = MAB([0,1,2], lp, npol, seed=5)
    try:
        m.fit(d, r, pd.Series(X[:,0])); m2 = MAB([0,1,2], lp, npol, seed=5); m2.fit(d, r, X[:,:1])
        a = m.predict_expectations(pd.Series(X[:4,0])); b = m2.predict_expectations(X[:4,:1]); print(name, "1-feature series == nd:", str(a)==str(b))
    except Exception as e: print(name, "1-feature EXC", type(e).__name__, e)

print("== C19 pickle all combos before/after fit")
lps = {"eg":LP.EpsilonGreedy(.2),"ucb":LP.UCB1(1.),"ts":LP.ThompsonSampling(b1),"sm":LP.Softmax(),"pop":LP.Popularity(),"rnd":LP.Random(),"linucb":LP.LinUCB(1.,1.),"lints":LP.LinTS(1.,1.),"lingr":LP.LinGreedy(0.2,1.)}
nps = {"none":None,"rad":NP.Radius(3.0,"cityblock"),"knn":NP.KNearest(4,"chebyshev"),"lsh":NP.LSHNearest(2,2),"clu":NP.Clusters(2),"tree":NP.TreeBandit()}
bad=[]
for l in lps:
    for p in nps:
        if p=="tree" and l not in ("eg","ucb","ts"): continue
        ctx = p!="none" or l.startswith("lin")
        try:
            m = MAB([0,1,2], lps[l], nps[p], seed=3)
            for proto in (2,5):
                pickle.loads(pickle.dumps(m, proto))
            m.fit(d, r, X) if ctx else m.fit(d, r)
            for proto in (2,3,4,5):
                c = pickle.loads(pickle.dumps(m, proto))
                a = (m.predict(X[:5]) if ctx else [m.predict() for _ in range(5)]); b = (c.predict(X[:5]) if ctx else [c.predict() for _ in range(5)])
                if str(a)!=str(b): bad.append((l,p,proto))
        except Exception as e: bad.append((l,p,type(e).__name__, str(e)[:80]))
print("pickle problems:", bad)
