from gen import *
import sys
rs = np.random.RandomState(int(sys.argv[1]) if len(sys.argv)>1 else 0)
def out(m, ctx, Q):
    a = copy.deepcopy(m); b = copy.deepcopy(m)
    return (a.predict(Q) if ctx else a.predict(), b.predict_expectations(Q) if ctx else b.predict_expectations())
def first_argmax(e): 
    import math
    best=None
    for k,v in e.items():
        if best is None or v>e[best]: best=k
    return best
probs={}
def note(k, msg):
    probs.setdefault(k, []).append(msg)
for l,p in combos():
    ctx = is_ctx(l,p)
    for trial in range(6):
        arms=[0,1,2]
        seed=int(rs.randint(1000))
        m = MAB(list(arms), LPS[l](), NPS[p](), seed=seed)
        n=int(rs.randint(12,30))
        d,r,X = data(rs,n,arms,binary=True)
        cut = int(rs.randint(4,n-3))
        # C06 chunked vs batch
        mb = MAB(list(arms), LPS[l](), NPS[p](), seed=seed)
        if ctx: mb.fit(d,r,X)
        else: mb.fit(d,r)
        if ctx: m.fit(d[:cut],r[:cut],X[:cut])
        else: m.fit(d[:cut],r[:cut])
        # chunks
        pos=cut
        while pos<n:
            k=int(rs.randint(1,4)); 
            if ctx: m.partial_fit(d[pos:pos+k],r[pos:pos+k],X[pos:pos+k])
            else: m.partial_fit(d[pos:pos+k],r[pos:pos+k])
            pos+=k
        Q = rs.randint(0,4,(int(rs.randint(1,5)),3)).astype(float)
        if p!="tree":
            oa, ob = out(m,ctx,Q), out(mb,ctx,Q)
            if str(oa)!=str(ob):
                # tolerance compare
                note("C06", (l,p,trial))
        # C09 predict == argmax
        pr, ex = out(m,ctx,Q)
        prl = pr if isinstance(pr,list) else [pr]; exl = ex if isinstance(ex,list) else [ex]
        if len(prl)!=len(exl): note("C08len",(l,p))
        for a_,e_ in zip(prl,exl):
            if any(np.isnan(v) for v in e_.values()): continue
            if not (p=="tree" and l=="eg3") and a_!=first_argmax(e_): note("C09",(l,p,trial,a_,e_))
            if list(e_.keys())!=m.arms: note("C08keys",(l,p))
        # C10 read only
        twin = copy.deepcopy(m)
        for _ in range(3):
            qq = rs.randint(0,4,(int(rs.randint(1,5)),3)).astype(float)
            (m.predict(qq), m.predict_expectations(qq)) if ctx else (m.predict(), m.predict_expectations())
        graft_rngs(m, twin)
        d2,r2,X2 = data(rs,5,arms)
        for o in (m,twin):
            if ctx: o.partial_fit(d2,r2,X2)
            else: o.partial_fit(d2,r2)
        o1, o2 = out(m,ctx,Q), out(twin,ctx,Q)
        if str(o1)!=str(o2): note("C10",(l,p,trial))
        # C07 refit
        nf2 = 3 if not ctx else int(rs.choice([2,3,5]))
        d3,r3,X3 = data(rs,int(rs.randint(8,40)),arms,nf=nf2)
        pre = copy.deepcopy(m)
        fresh = MAB(list(m.arms), LPS[l](), NPS[p](), seed=seed)
        graft_rngs(pre, fresh) if False else None
        # fresh has different rng structure; set main rng state only, then fit both
        fresh._rng.rng.bit_generator.state = copy.deepcopy(m._rng.rng.bit_generator.state)
        try:
            if ctx: m.fit(d3,r3,X3); fresh.fit(d3,r3,X3)
            else: m.fit(d3,r3); fresh.fit(d3,r3)
            graft_rngs(m, fresh)
            Q3 = rs.randint(0,4,(3,nf2)).astype(float)
            o1,o2 = out(m,ctx,Q3), out(fresh,ctx,Q3)
            if str(o1)!=str(o2): note("C07",(l,p,trial,nf2))
            if m.cold_arms!=fresh.cold_arms: note("C07cold",(l,p))
        except Exception as e:
            note("C07exc",(l,p,type(e).__name__,str(e)[:60]))
for k,v in probs.items(): print(k, len(v), v[:8])
print("done")
