from gen import *
import sys, math
rs = np.random.RandomState(int(sys.argv[1]) if len(sys.argv)>1 else 0)
probs={}
def note(k, msg): probs.setdefault(k, []).append(msg)
LABELS = {"int":[0,1,2,3,4,5,6], "str":["a","b","c","d","e","f","g"], "float":[0.5,1.5,2.5,3.5,4.5,5.5,6.5]}
for l,p in combos():
    ctx = is_ctx(l,p)
    for trial in range(5):
        lt = ["int","str","float"][trial%3]
        pool = LABELS[lt]
        arms = pool[:3]
        seed=int(rs.randint(1000))
        m = MAB(list(arms), LPS[l](), NPS[p](), seed=seed)
        fitted=False
        ledger={a:[] for a in arms}; N=0
        for step in range(14):
            op = rs.choice(["fit","pfit","add","rem","pred","pred","warm"])
            try:
                if op in ("fit","pfit"):
                    n=int(rs.randint(1,12)); 
                    if p=="clu": n+=2
                    d,r,X = data(rs,n,m.arms,binary=(l!="pop"))
                    if l=="pop": r=np.abs(r)
                    if l=="ts": r = (r>0).astype(float)
                    isfit = (op=="fit") or not fitted
                    f = m.fit if op=="fit" else m.partial_fit
                    f(d,r,X) if ctx else f(d,r)
                    if isfit: ledger={a:[] for a in m.arms}; N=0
                    if ledger is not None:
                        for a_,r_ in zip(d,r): ledger[a_.item() if hasattr(a_,'item') else a_].append(r_)
                    N+=len(d); fitted=True
                elif op=="add":
                    cand=[a for a in pool if a not in m.arms]
                    if cand: a=cand[int(rs.randint(len(cand)))]; m.add_arm(a); ledger is not None and ledger.__setitem__(a,[])
                elif op=="rem":
                    if len(m.arms)>2: a=m.arms[int(rs.randint(len(m.arms)))]; m.remove_arm(a); ledger is not None and ledger.pop(a)
                elif op=="warm" and p=="none" and l!="rnd" and fitted:
                    feats={a:list(rs.randint(0,3,2).astype(float)) for a in m.arms}
                    if all(sum(v)==0 for v in feats.values()): continue
                    m.warm_start(feats, float(rs.choice([0.,0.3,0.5,1.0])))
                    ledger=None  # stop checking C01 after warm start
                elif op=="pred" and fitted:
                    k=int(rs.randint(1,4)); Q=rs.randint(0,4,(k,3)).astype(float)
                    a_=copy.deepcopy(m); b_=copy.deepcopy(m)
                    pr = a_.predict(Q) if ctx else (a_.predict() if k==1 else a_.predict(Q))
                    ex = b_.predict_expectations(Q) if ctx else (b_.predict_expectations() if k==1 else b_.predict_expectations(Q))
                    prl = pr if k>1 else [pr]; exl = ex if k>1 else [ex]
                    if k>1 and (not isinstance(pr,list) or len(pr)!=k or not isinstance(ex,list) or len(ex)!=k): note("C08shape",(l,p,lt,k,type(pr)))
                    if k==1 and (isinstance(pr,list) or isinstance(ex,list)): note("C08shape1",(l,p,lt))
                    for x_,e_ in zip(prl,exl):
                        if x_ not in m.arms or type(x_)!=type(m.arms[0]): note("C08member",(l,p,lt,repr(x_),type(x_).__name__))
                        if list(e_.keys())!=list(m.arms): note("C08keys",(l,p,lt,list(e_.keys()),m.arms))
                    # C01 oracle for deterministic context-free
                    if p=="none" and ledger is not None and l in ("eg0","ucb"):
                        e_=exl[0]
                        for a in m.arms:
                            rr=ledger[a]
                            if not rr: exp=0
                            elif l=="eg0": exp=sum(rr)/len(rr)
                            else: exp=sum(rr)/len(rr)+1.5*math.sqrt(2*math.log(N)/len(rr))
                            if abs(e_[a]-exp)>1e-12: note("C01",(l,a,e_[a],exp))
                    if p=="none" and ledger is not None and l in ("sm","pop"):
                        e_=m._imp.arm_to_expectation
                        means={a:(sum(ledger[a])/len(ledger[a]) if ledger[a] else 0.) for a in m.arms}
                        if l=="sm":
                            mx=max(means.values()); ex_={a:math.exp((means[a]-mx)/0.7) for a in means}; t=sum(ex_.values()); orc={a:ex_[a]/t for a in means}
                        else:
                            t=sum(means.values()); orc={a:(means[a]/t if t else 1/len(means)) for a in means}
                        for a in m.arms:
                            if abs(e_[a]-orc[a])>1e-12: note("C01"+l,(trial,step,a,e_[a],orc[a]))
            except Exception as e:
                note("EXC",(l,p,lt,op,type(e).__name__,str(e)[:70]))
for k,v in probs.items(): print(k, len(v), v[:6])
print("done")
