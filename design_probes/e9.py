from gen import *
import sys, math
rs = np.random.RandomState(int(sys.argv[1]) if len(sys.argv)>1 else 0)
probs={}
def note(k, msg): probs.setdefault(k, []).append(msg)
def arm_state(imp, arm):
    st={}
    for k,v in vars(imp).items():
        if isinstance(v, dict) and arm in v and k not in ("arm_to_status","arm_to_expectation","arm_to_exponent"):
            x=v[arm]
            if hasattr(x,"__dict__"):
                x={kk:(vv.tolist() if isinstance(vv,np.ndarray) else (None if kk in("rng","scaler") else vv)) for kk,vv in vars(x).items()}
            st[k]=x
    return repr(st)
def cosd(u,v):
    u=np.array(u,float); v=np.array(v,float)
    nu=np.linalg.norm(u); nv=np.linalg.norm(v)
    if nu==0 or nv==0: return None
    return 1-np.dot(u,v)/(nu*nv)
for l in ["eg0","eg3","ucb","ts","sm","pop","linucb","lints","lingr"]:
    ctx=l.startswith("lin")
    for trial in range(30):
        na=int(rs.randint(3,7)); arms=list(range(na))
        m=MAB(list(arms), LPS[l](), seed=int(rs.randint(999)))
        obs=[a for a in arms if rs.rand()<0.5] or [arms[0]]
        n=int(rs.randint(5,25)); d=np.array([obs[i] for i in rs.randint(0,len(obs),n)]); r=rs.randint(0,2,n).astype(float); X=rs.randint(0,4,(n,3)).astype(float)
        m.fit(d,r,X) if ctx else m.fit(d,r)
        observed=set(d.tolist())
        feats={a:list(rs.randint(0,3,3).astype(float)) for a in arms}
        if sum(1 for v in feats.values() if sum(v)>0)<2: continue
        q=float(rs.choice([0.,0.25,0.5,0.75,1.0]))
        if set(m.cold_arms)!=set(arms)-observed: note("cold0",(l,))
        before={a:arm_state(m._imp,a) for a in arms}
        m0=copy.deepcopy(m)
        try: m.warm_start(feats,q)
        except Exception as e: note("EXC",(l,type(e).__name__,str(e)[:50])); continue
        after={a:arm_state(m._imp,a) for a in arms}
        # oracle
        dist={a:{b:(999999 if a==b or cosd(feats[a],feats[b]) is None else cosd(feats[a],feats[b])) for b in arms} for a in arms}
        mins=[min(dist[a].values()) for a in arms if min(dist[a].values())!=999999]
        thr=np.quantile(mins,q)
        trained=[a for a in arms if a in observed]
        warmed=set()
        for a in arms:
            if a in observed:
                if before[a]!=after[a]: note("trained_modified",(l,a))
                continue
            dmin=min(dist[a][t] for t in trained)
            srcs=[t for t in trained if abs(dist[a][t]-dmin)<1e-15]
            changed = before[a]!=after[a]
            is_warm = a not in m.cold_arms
            if is_warm: warmed.add(a)
            if is_warm != (dmin<=thr+1e-15) and abs(dmin-thr)>1e-12: note("threshold",(l,a,dmin,thr,is_warm))
            if is_warm and not any(after[a]==before[s] for s in srcs): note("notcopy",(l,a,srcs,after[a][:80],before[srcs[0]][:80]))
            if not is_warm and changed: note("cold_changed",(l,a))
        # idempotent
        s1={a:arm_state(m._imp,a) for a in arms}; c1=list(m.cold_arms)
        m.warm_start(feats,q)
        if {a:arm_state(m._imp,a) for a in arms}!=s1 or m.cold_arms!=c1: note("idem",(l,))
        # monotone
        prev=None
        for qq in (0.,0.25,0.5,0.75,1.0):
            mm=copy.deepcopy(m0); mm.warm_start(feats,qq); w=set(arms)-observed-set(mm.cold_arms)
            if prev is not None and not prev<=w: note("mono",(l,prev,w))
            prev=w
for k,v in probs.items(): print(k, len(v), v[:6])
print("done")
