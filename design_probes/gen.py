import warnings; warnings.filterwarnings("ignore")
import numpy as np, copy
from mabwiser.mab import MAB, LearningPolicy as LP, NeighborhoodPolicy as NP
from mabwiser.utils import _BaseRNG

LPS = {"eg0":lambda: LP.EpsilonGreedy(0),"eg3":lambda: LP.EpsilonGreedy(.3),"ucb":lambda: LP.UCB1(1.5),"ts":lambda: LP.ThompsonSampling(),"sm":lambda: LP.Softmax(0.7),"pop":lambda: LP.Popularity(),"rnd":lambda: LP.Random(),
       "linucb":lambda: LP.LinUCB(1.,1.),"lints":lambda: LP.LinTS(.5,2.),"lingr":lambda: LP.LinGreedy(0.2,.5)}
NPS = {"none":lambda: None,"rad":lambda: NP.Radius(3.0,"cityblock"),"knn":lambda: NP.KNearest(3,"chebyshev"),"lsh":lambda: NP.LSHNearest(2,2),"clu":lambda: NP.Clusters(2),"tree":lambda: NP.TreeBandit()}
def combos():
    for l in LPS:
        for p in NPS:
            if p=="tree" and l not in ("eg0","eg3","ucb","ts"): continue
            yield l,p
def is_ctx(l,p): return p!="none" or l.startswith("lin")

def rng_paths(obj, path=(), seen=None, out=None):
    """enumerate paths to _BaseRNG objects reachable from obj"""
    if seen is None: seen=set(); out=[]
    if isinstance(obj, _BaseRNG):
        out.append((path, obj)); return out
    if id(obj) in seen: return out
    if isinstance(obj, (int,float,str,bytes,bool,type(None),np.ndarray,np.generic)): return out
    seen.add(id(obj))
    if isinstance(obj, dict):
        for k,v in obj.items(): rng_paths(v, path+(("k",k),), seen, out)
    elif isinstance(obj, (list,tuple)):
        for i,v in enumerate(obj): rng_paths(v, path+(("i",i),), seen, out)
    elif hasattr(obj, "__dict__") and type(obj).__module__.startswith("mabwiser"):
        for k,v in vars(obj).items(): rng_paths(v, path+(("a",k),), seen, out)
    return out

def graft_rngs(src, dst):
    """make dst's generators copies of src's with the same aliasing"""
    memo={}
    for path, r in rng_paths(src):
        if id(r) not in memo: memo[id(r)] = copy.deepcopy(r)
        o = dst
        for kind,key in path[:-1]:
            o = o[key] if kind in ("k","i") else getattr(o,key)
        kind,key = path[-1]
        if kind in ("k","i"): o[key]=memo[id(r)]
        else: setattr(o,key,memo[id(r)])

def data(rs, n, arms, nf=3, binary=True):
    d = np.array([arms[i] for i in rs.randint(0,len(arms),n)])
    r = rs.randint(0,2,n).astype(float) if binary else rs.randint(-8,9,n)/4.0
    X = rs.randint(0,4,(n,nf)).astype(float)
    return d,r,X
