"""Module-level (hence picklable) binarizer functions used by the workloads.

A binarizer receives (arm, reward) and returns 0/1 (or bool).  `IDENTITY_ON_BINARY[name]` says whether
binarizer(arm, v) == v for v in {0, 1} and every arm - the enabling condition of known finding K3."""


def _rank(arm):
    # deterministic small integer per arm label, independent of PYTHONHASHSEED
    if isinstance(arm, str):
        return sum(ord(c) for c in arm) % 5
    return int(abs(float(arm)) * 2) % 5


def thr_inside(arm, reward):
    """arm-dependent threshold strictly inside (0, 1): identity on {0, 1}"""
    return 1 if reward > 0.2 + 0.15 * _rank(arm) else 0


def thr_half(arm, reward):
    """threshold 0.5: identity on {0, 1}"""
    return 1 if reward >= 0.5 else 0


def thr_outside(arm, reward):
    """arm-dependent threshold >= 2: maps both 0 and 1 to 0 (not identity on binary values)"""
    return 1 if reward > 2 + _rank(arm) else 0


def inverted(arm, reward):
    """success when the reward is small: maps 0 -> 1 and 1 -> 0"""
    return 1 if reward < 0.5 else 0


def nonneg(arm, reward):
    """reward >= 0 counts as success: maps 0 -> 1 (not identity on binary values)"""
    return 1 if reward >= 0 else 0


def thr_three(arm, reward):
    """threshold 3 for every arm"""
    return 1 if reward > 3 else 0


def thr_big(arm, reward):
    """arm-dependent threshold just above 2^53: decides on the low bits of very large integer rewards (identifiers, counters
    in nanoseconds); everything of ordinary size is a failure"""
    return 1 if reward > 2 ** 53 + 1 + _rank(arm) else 0


def thr_strict(arm, reward):
    """thr_inside of a careful owner: refuses (ValueError) a negative reward instead of classifying it - a training call whose
    batch contains one fails inside the library, after whatever ran before the conversion of that reward"""
    if reward < 0:
        raise ValueError("negative reward %r for arm %r" % (reward, arm))
    return thr_inside(arm, reward)


thr_strict.reference = thr_inside


def inv_strict(arm, reward):
    """`inverted` of a careful owner (ValueError on a negative reward): not the identity on {0, 1}, so a conversion applied twice shows"""
    if reward < 0:
        raise ValueError("negative reward %r for arm %r" % (reward, arm))
    return inverted(arm, reward)


inv_strict.reference = inverted


class TableThreshold:
    """a binarizer that is an object, not a function: arm-dependent thresholds looked up in a table its owner extends when a new
    arm appears (the thresholds of known arms never change, so it is one fixed function of (arm, reward)); an arm that is not
    in the table is a KeyError"""
    reference = staticmethod(thr_inside)

    def __init__(self):
        self.table = {}

    def know(self, arm):
        self.table[arm] = 0.2 + 0.15 * _rank(arm)

    def __call__(self, arm, reward):
        return 1 if reward > self.table[arm] else 0

    def __repr__(self):
        return "TableThreshold(%d arms)" % len(self.table)


TABLE = TableThreshold()
ALL = {f.__name__: f for f in (thr_inside, thr_half, thr_outside, inverted, nonneg, thr_three, thr_big, thr_strict, inv_strict)}
ALL["table"] = TABLE


def identity_on_binary(fn, arms):
    fn = getattr(fn, "reference", fn)
    return all(fn(a, v) == v for a in arms for v in (0, 1, 0.0, 1.0))
