"""Per-case recording context handed to every property module's run_case()."""
import hashlib
import json


def jdefault(o):
    try:
        import numpy as np
        if isinstance(o, np.generic):
            return o.item()
        if isinstance(o, np.ndarray):
            return o.tolist()
    except Exception:  # noqa: BLE001
        pass
    if isinstance(o, (set, frozenset)):
        return sorted(o, key=repr)
    if isinstance(o, bytes):
        return o.hex()
    return repr(o)


def jdump(o, **kw):
    return json.dumps(o, default=jdefault, **kw)


def digest(o):
    return hashlib.sha256(jdump(o, sort_keys=True).encode()).hexdigest()[:16]


def _shrink(w, limit=20000):
    """witnesses are replayed from the case index; very long data lists are replaced by a description"""
    if isinstance(w, dict):
        return {k: _shrink(v, limit) for k, v in w.items()}
    if isinstance(w, (list, tuple)):
        if len(w) > limit:
            return "<%d items, first %r; regenerated from the case index on replay>" % (len(w), w[:3])
        return [_shrink(v, limit) for v in w]
    return w


class Ctx:
    """collects what one case observed; merged by the worker"""

    def __init__(self, prop, tier, seed, index):
        self.prop, self.tier, self.seed, self.index = prop, tier, seed, index
        self.evaluations = 0
        self.nontrivial = set()
        self.violations = []
        self.known = []
        self.samples = []
        self.counters = {}
        self.events = 0

    def ev(self, n=1):
        self.evaluations += n

    def nt(self, *sig):
        self.nontrivial.add("|".join(str(s) for s in sig))

    def count(self, name, n=1):
        self.counters[name] = self.counters.get(name, 0) + n

    def sample(self, obj):
        if len(self.samples) < 1:
            self.samples.append(obj)

    def violation(self, what, witness=None, mech=None, kind=None):
        """mech: key of the mechanism a classifier *proved* explains this witness (None: unexplained)"""
        if kind:
            self.count("violation_kind:" + kind)
        self.violations.append({"what": what, "witness": _shrink(witness), "mech": mech, "index": self.index})
