"""./check <Cxx> [--tier quick|thorough] [--replay PATH] [--shards N]

Shards the cases of one property over worker subprocesses (subprocess.run with a timeout each - a
multiprocessing.Pool hangs when a child dies), merges what they observed, applies the known-findings
file, writes evidence/<id>.json and prints the verdict lines.

exit 0  held on everything observed (KNOWN-FINDING lines allowed)
exit 1  VIOLATION property=<id> replay=<path>
exit 3  INCONCLUSIVE property=<id> reason=...   (watchdog, crash, monitor never reached, too few cases)
"""
from mon import env
import argparse
import concurrent.futures
import json
import os
import subprocess
import sys
import tempfile
import time

from mon.case import jdump

KNOWN_FILE = os.path.join(env.VERIF, "known_findings.json")


def load_known():
    try:
        with open(KNOWN_FILE) as f:
            return json.load(f).get("findings", [])
    except FileNotFoundError:
        return []


def run_shard(prop, tier, seed, shard, nshards, timeout, only=None):
    fd, out = tempfile.mkstemp(prefix="verif_%s_%d_" % (prop, shard), suffix=".json", dir=WORK)
    os.close(fd)
    cmd = [sys.executable, "-m", "mon.worker", prop, tier, str(seed), str(shard), str(nshards), out]
    if only is not None:
        cmd.append(str(only))
    e = dict(os.environ)
    try:
        p = subprocess.run(cmd, cwd=env.VERIF, env=e, timeout=timeout, stdout=subprocess.PIPE, stderr=subprocess.PIPE)
        if p.returncode != 0:
            return {"shard": shard, "dead": "exit %d: %s" % (p.returncode, p.stderr.decode(errors="replace")[-800:])}
        with open(out) as f:
            return json.load(f)
    except subprocess.TimeoutExpired:
        return {"shard": shard, "dead": "watchdog: no result within %ds" % timeout}
    except Exception as ex:  # noqa: BLE001
        return {"shard": shard, "dead": "harness: %r" % (ex,)}
    finally:
        try:
            os.unlink(out)
        except OSError:
            pass


WORK = os.path.join(env.VERIF, ".work")


def main(argv=None):
    ap = argparse.ArgumentParser()
    ap.add_argument("prop")
    ap.add_argument("--tier", default=os.environ.get("VERIF_TIER", "quick"))
    ap.add_argument("--replay")
    ap.add_argument("--shards", type=int)
    a = ap.parse_args(argv)
    prop = a.prop.upper()
    tier = a.tier if a.tier in ("quick", "thorough") else "quick"
    seed = int(os.environ.get("VERIF_SEED", "0") or 0)
    os.makedirs(WORK, exist_ok=True)
    env.ensure_deps()
    env.assert_repo_tree()
    from mon.worker import prop_module
    mod = prop_module(prop)
    t0 = time.time()

    if a.replay:
        with open(a.replay) as f:
            rp = json.load(f)
        r = run_shard(prop, rp.get("tier", tier), rp.get("seed", seed), 0, 1, 1800, only=rp["index"])
        results, nshards = [r], 1
        tier, seed = rp.get("tier", tier), rp.get("seed", seed)
    else:
        budget = mod.BUDGET[tier]
        nshards = a.shards or budget.get("shards", 8)
        nshards = max(1, min(nshards, budget["cases"]))
        timeout = budget.get("wall_s", 3000 if tier == "quick" else 3600) + 300
        with concurrent.futures.ThreadPoolExecutor(max_workers=min(nshards, 16)) as ex:
            results = list(ex.map(lambda s: run_shard(prop, tier, seed, s, nshards, timeout), range(nshards)))

    known = [k for k in load_known() if k["property"] == prop]
    known_open = {k["key"]: k for k in known if k.get("status") == "known"}
    known_fixed = {k["key"]: k for k in known if k.get("status") == "fixed"}

    dead = [r for r in results if "dead" in r]
    live = [r for r in results if "dead" not in r]
    evaluations = sum(r["evaluations"] for r in live)
    cases = sum(r["cases"] for r in live)
    nontrivial = set()
    counters, contracts_c, samples, side, errors = {}, {}, [], [], []
    viol, known_hits = [], {}
    for r in live:
        nontrivial |= set(r["nontrivial"])
        for k, v in r["counters"].items():
            if isinstance(v, (int, float)):
                counters[k] = counters.get(k, 0) + v
            else:
                counters.setdefault(k, v)
        for k, v in r.get("contracts", {}).items():
            if isinstance(v, int):
                contracts_c[k] = contracts_c.get(k, 0) + v
            else:
                contracts_c[k] = v
        samples += r["samples"]
        side += r["side_alarms"]
        errors += r["errors"]
        viol += r["violations"]
        for mech, h in r.get("mech_hits", {}).items():
            if mech in known_open:
                kh = known_hits.setdefault(mech, {"n": 0, "example": h["example"]})
                kh["n"] += h["n"]
            else:  # explained by a mechanism that is not an open known finding (e.g. a fixed one came back)
                viol.append(h["example"])
                counters["violations_by_mechanism:" + mech] = counters.get("violations_by_mechanism:" + mech, 0) + h["n"]
    stopped = [r["shard"] for r in live if r.get("stopped_early")]

    reasons = []
    if dead:
        reasons.append("%d shard(s) produced no result (%s)" % (len(dead), dead[0]["dead"][:300].replace("\n", " | ")))
    if errors:
        reasons.append("%d case(s) escaped with an exception (first: %s)" % (
            len(errors), errors[0]["trace"].strip().splitlines()[-1][:200]))
    if stopped:
        reasons.append("shards %s hit their wall-clock budget before finishing" % stopped)
    if not a.replay:
        mins = getattr(mod, "MIN", {}).get(tier, {})
        if evaluations < mins.get("evaluations", 1):
            reasons.append("only %d oracle evaluations (< %d)" % (evaluations, mins.get("evaluations", 1)))
        if len(nontrivial) < mins.get("nontrivial", 2):
            reasons.append("only %d distinct non-trivial cases (< %d)" % (len(nontrivial), mins.get("nontrivial", 2)))
        for cname, cmin in mins.get("counters", {}).items():
            got = counters.get(cname, contracts_c.get(cname, 0))
            if got < cmin:
                reasons.append("monitor counter %s = %s (< %d): deciding monitor not reached" % (cname, got, cmin))

    # ---- verdict lines
    for key, h in sorted(known_hits.items()):
        print("KNOWN-FINDING: property=%s %s %s [%d observation(s) this run]" % (
            prop, key, known_open[key]["what"], h["n"]))
    replay_paths = []
    if viol:
        os.makedirs(os.path.join(env.VERIF, "replays"), exist_ok=True)
        seen_idx = set()
        for v in viol:
            if v["index"] in seen_idx or len(replay_paths) >= 5:
                continue
            seen_idx.add(v["index"])
            rel = os.path.join("replays", "%s_%s_s%d_i%d.json" % (prop, tier, seed, v["index"]))
            with open(os.path.join(env.VERIF, rel), "w") as f:
                f.write(jdump({"property": prop, "tier": tier, "seed": seed, "index": v["index"], "what": v["what"],
                               "mechanism": v.get("mech"), "regression_of_fixed": v.get("mech") in known_fixed,
                               "witness": v.get("witness"),
                               "replay": "./check %s --replay %s" % (prop, rel)}, indent=1))
            replay_paths.append(rel)
            print("VIOLATION property=%s replay=%s" % (prop, rel))
            print("  what: %s%s" % (v["what"][:300], "  [regression of fixed finding %s]" % v["mech"]
                                    if v.get("mech") in known_fixed else ""))
    for sa in side[:5]:
        print("SIDE-ALARM property=%s (always-on contract, observed while checking %s): %s" % (
            sa["property"], prop, sa["what"][:200]))
    inconclusive = bool(reasons) and not viol
    if inconclusive:
        print("INCONCLUSIVE property=%s reason=%s" % (prop, "; ".join(reasons)))

    wall = time.time() - t0
    if not a.replay and not os.environ.get("VERIF_NO_EVIDENCE"):
        cov = {"evaluations": int(evaluations), "distinct_nontrivial": len(nontrivial), "rule": mod.RULE,
               "samples": samples[:4] or ["(no sample recorded)"], "cases": cases, "shards": nshards,
               "dead_shards": len(dead), "inconclusive_reasons": reasons,
               "monitor_counters": counters, "always_on_contracts": contracts_c,
               "known_finding_hits": {k: h["n"] for k, h in known_hits.items()},
               "side_alarms": len(side), "nontrivial_signatures_sample": sorted(nontrivial)[:12],
               "verdict": "violated" if viol else ("inconclusive" if inconclusive else "held on what was observed")}
        if getattr(mod, "EXHAUSTIVE_NOTE", None):
            cov["exhaustive_parts"] = mod.EXHAUSTIVE_NOTE
        ev = {"property_id": prop, "tier": tier, "seed": seed, "level": mod.LEVEL, "coverage": cov,
              "assumptions": list(getattr(mod, "ASSUMPTIONS", [])), "wall_s": round(wall, 2), "violations": len(viol)}
        from mon import evidence
        evidence.write(prop, ev)
    print("%s tier=%s seed=%d cases=%d evaluations=%d distinct_nontrivial=%d violations=%d known=%d wall=%.1fs" % (
        prop, tier, seed, cases, evaluations, len(nontrivial), len(viol), sum(h["n"] for h in known_hits.values()), wall))
    if viol:
        return 1
    if inconclusive:
        return 3
    return 0


if __name__ == "__main__":
    sys.exit(main())
