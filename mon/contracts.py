"""Always-on runtime contracts on the public facade (installed in every worker of every check).

* C08 result-shape post-conditions on MAB.predict / MAB.predict_expectations: every result ranges over
  exactly the current arms (same Python type as the arm label, key order = arm-list order), one result per
  context row, a single (unwrapped) result for one row or no contexts.
* C18 "inputs untouched" snapshots around every public call: byte-level images of every argument
  (ndarray: dtype/shape/strides/bytes; pandas and builtin containers: pickle image) before and after.
* floating-point warnings are counted as events (never a verdict).

Predicates *record* and return True (so a failing contract never changes what the monitored call does);
the findings are drained by the worker after each case.  Attachment uses icontract when importable, an
equivalent plain wrapper otherwise; every predicate counts its evaluations and a count of zero makes the
owning check inconclusive."""
from mon import env  # noqa: F401
import functools
import pickle
import threading

import numpy as np

from mabwiser.mab import MAB

COUNTS = {"c08_predict": 0, "c08_expectations": 0, "c18_snapshots": 0, "c18_ctor_snapshots": 0, "c18_ctor_args_rechecked": 0}
import weakref  # noqa: E402
_CTOR_ARGS = weakref.WeakKeyDictionary()  # bandit -> [objects passed to the constructor, their snapshots]
ALARMS = []  # dicts {property, what, detail}
ATTACHED_WITH = None
_lock = threading.Lock()
_installed = False


def _record(prop, what, detail):
    with _lock:
        if len(ALARMS) < 200:
            ALARMS.append({"property": prop, "what": what, "detail": detail})


def drain():
    with _lock:
        out = list(ALARMS)
        del ALARMS[:]
    return out


def _n_rows(contexts):
    """number of query rows the call was made with, None if it cannot be told from the argument alone
    (pandas Series: one row or one column, decided by the library)"""
    if contexts is None:
        return 1
    try:
        import pandas as pd
        if isinstance(contexts, pd.Series):
            return None
    except Exception:  # noqa: BLE001
        pass
    try:
        return len(contexts)
    except Exception:  # noqa: BLE001
        return None


def _same_label(x, arms):
    """membership in the arm list: same value and same type; in an arm list that mixes int and float labels (legal: Arm =
    Union[int, float, str]) a number equal to a label is that label (Python's own list membership)"""
    num_types = {type(a) for a in arms if type(a) in (int, float)}
    for a in arms:
        if type(x) is type(a) and x == a:
            return True
        if len(num_types) > 1 and type(x) in (int, float) and type(a) in (int, float) and x == a:
            return True
    return False


# ---- C08 predicates (named functions, argument names match the monitored method) --------------------
def predict_result_ranges_over_arms(self, contexts, result):
    with _lock:
        COUNTS["c08_predict"] += 1
    arms = list(self.arms)
    m = _n_rows(contexts)
    if m is not None and m > 1:
        if not isinstance(result, list) or len(result) != m:
            _record("C08", "predict: m=%d rows but result is %s of length %s" % (
                m, type(result).__name__, len(result) if hasattr(result, "__len__") else "-"), repr(result)[:200])
            return True
        items = result
    elif m == 1:
        if isinstance(result, (list, tuple, np.ndarray)):
            _record("C08", "predict: single row / no contexts but result is a %s" % type(result).__name__,
                    repr(result)[:200])
            return True
        items = [result]
    else:
        items = result if isinstance(result, list) else [result]
    for x in items:
        if not _same_label(x, arms):
            _record("C08", "predict returned %r (%s), not a member of the current arm list %r" % (
                x, type(x).__name__, arms), repr(result)[:200])
            break
    return True


def expectations_keyed_by_arms(self, contexts, result):
    with _lock:
        COUNTS["c08_expectations"] += 1
    arms = list(self.arms)
    m = _n_rows(contexts)
    if m is not None and m > 1:
        if not isinstance(result, list) or len(result) != m:
            _record("C08", "predict_expectations: m=%d rows but result is %s of length %s" % (
                m, type(result).__name__, len(result) if hasattr(result, "__len__") else "-"), repr(result)[:200])
            return True
        items = result
    elif m == 1:
        if not isinstance(result, dict):
            _record("C08", "predict_expectations: single row / no contexts but result is a %s" % type(result).__name__,
                    repr(result)[:200])
            return True
        items = [result]
    else:
        items = result if isinstance(result, list) else [result]
    for e in items:
        if not isinstance(e, dict):
            _record("C08", "predict_expectations row is a %s" % type(e).__name__, repr(e)[:200])
            break
        keys = list(e.keys())
        if len(keys) != len(arms) or any(not (type(k) is type(a) and k == a) for k, a in zip(keys, arms)):
            _record("C08", "predict_expectations keys %r differ from the current arm list %r" % (keys, arms),
                    repr(e)[:200])
            break
    return True


# ---- C18 snapshots ------------------------------------------------------------------------------------
def snap(obj):
    """byte-level image of a caller object"""
    if isinstance(obj, np.ndarray):
        return ("nd", obj.dtype.str, obj.shape, obj.strides, obj.flags["C_CONTIGUOUS"], obj.flags["F_CONTIGUOUS"],
                obj.tobytes() if obj.dtype != object else pickle.dumps(obj.tolist(), 4))
    try:
        import pandas as pd
        if isinstance(obj, (pd.Series, pd.DataFrame)):
            return ("pd", type(obj).__name__, str(getattr(obj, "dtype", "")) or str(list(obj.dtypes)),
                    pickle.dumps(obj.index.tolist(), 4),
                    pickle.dumps(obj.to_numpy().tolist(), 4))
    except Exception:  # noqa: BLE001
        pass
    if isinstance(obj, (list, tuple)):
        return (type(obj).__name__, tuple(snap(v) for v in obj))
    if isinstance(obj, dict):
        return ("dict", tuple((snap(k), snap(v)) for k, v in obj.items()))
    if callable(obj):
        return ("callable", getattr(obj, "__qualname__", repr(obj)))
    try:
        return ("pkl", type(obj).__name__, pickle.dumps(obj, 4))
    except Exception:  # noqa: BLE001
        return ("repr", repr(obj))


def _wrap_snapshot(name, fn):
    @functools.wraps(fn)
    def wrapper(self, *args, **kwargs):
        before = [snap(a) for a in args] + [snap(v) for v in kwargs.values()]
        try:
            return fn(self, *args, **kwargs)
        finally:
            after = [snap(a) for a in args] + [snap(v) for v in kwargs.values()]
            with _lock:
                COUNTS["c18_snapshots"] += 1
            if before != after:
                idx = [i for i, (b, a) in enumerate(zip(before, after)) if b != a]
                _record("C18", "%s modified caller argument(s) #%s" % (name, idx), "")
            try:
                with _lock:
                    reg = _CTOR_ARGS.get(self)
            except TypeError:
                reg = None
            if reg is not None:
                now = [snap(o) for o in reg[0]]
                with _lock:
                    COUNTS["c18_ctor_args_rechecked"] += 1
                if now != reg[1]:
                    names = ["arms", "learning_policy", "neighborhood_policy"]
                    _record("C18", "%s modified object(s) the bandit was constructed from: %s" % (
                        name, [n for n, b, a in zip(names, reg[1], now) if b != a]), repr(reg[0][2])[:160])
                    reg[1] = now
    wrapper.__wrapped_by_verif__ = True
    return wrapper


def _wrap_ctor(fn):
    @functools.wraps(fn)
    def wrapper(self, arms, learning_policy, neighborhood_policy=None, *args, **kwargs):
        objs = [arms, tuple(learning_policy) if isinstance(learning_policy, tuple) else learning_policy,
                tuple(neighborhood_policy) if isinstance(neighborhood_policy, tuple) else neighborhood_policy]
        before = [snap(o) for o in objs]
        try:
            return fn(self, arms, learning_policy, neighborhood_policy, *args, **kwargs)
        finally:
            after = [snap(o) for o in objs]
            try:
                with _lock:
                    _CTOR_ARGS[self] = [objs, after]
            except TypeError:
                pass
            with _lock:
                COUNTS["c18_ctor_snapshots"] += 1
            if before != after:
                names = ["arms", "learning_policy", "neighborhood_policy"]
                _record("C18", "MAB() modified caller object(s) %s" % [n for n, b, a in zip(names, before, after) if b != a],
                        repr(neighborhood_policy)[:160])
    wrapper.__wrapped_by_verif__ = True
    return wrapper


def _attach_post(method_name, predicate):
    global ATTACHED_WITH
    orig = getattr(MAB, method_name)
    try:
        import icontract

        class _ContractBroken(Exception):
            pass

        wrapped = icontract.ensure(predicate, error=_ContractBroken)(orig)
        ATTACHED_WITH = "icontract " + getattr(icontract, "__version__", "?")
    except Exception:  # noqa: BLE001 - library missing or refuses the signature: equivalent plain wrapper
        @functools.wraps(orig)
        def wrapped(self, contexts=None):
            result = orig(self, contexts)
            predicate(self, contexts, result)
            return result
        ATTACHED_WITH = ATTACHED_WITH or "builtin wrapper"
    setattr(MAB, method_name, wrapped)


def install():
    global _installed
    if _installed:
        return
    _installed = True
    _attach_post("predict", predict_result_ranges_over_arms)
    _attach_post("predict_expectations", expectations_keyed_by_arms)
    for name in ("fit", "partial_fit", "predict", "predict_expectations", "warm_start", "add_arm", "remove_arm"):
        setattr(MAB, name, _wrap_snapshot(name, getattr(MAB, name)))
    MAB.__init__ = _wrap_ctor(MAB.__init__)


def counters():
    with _lock:
        return dict(COUNTS, attached_with=ATTACHED_WITH)
