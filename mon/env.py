"""Process environment for every monitor process.

Imported first by every entry point.  Pins numerical kernels to one thread (C04's stated assumption),
makes sure ``mabwiser`` is imported from the *current working tree* of /repo (checks "rebuild" by
importing from source: the library is pure Python), and makes optional third-party contract libraries
importable from /verif/.deps without letting them shadow anything of the repository's environment.
"""
import os
import sys

VERIF = os.path.dirname(os.path.dirname(os.path.abspath(__file__)))
REPO = os.environ.get("MABWISER_REPO", "/repo")
DEPS = os.path.join(VERIF, ".deps")
GUARD = "MABWISER_VERIF"

for _v in ("OMP_NUM_THREADS", "OPENBLAS_NUM_THREADS", "MKL_NUM_THREADS", "NUMEXPR_NUM_THREADS",
           "VECLIB_MAXIMUM_THREADS", "BLIS_NUM_THREADS"):
    os.environ[_v] = "1"
os.environ.setdefault("PYTHONHASHSEED", "0")
os.environ[GUARD] = "1"
os.environ.setdefault("JOBLIB_MULTIPROCESSING", "1")
# children (loky / multiprocessing workers, scenario interpreters) must import the same tree
_pp = [p for p in os.environ.get("PYTHONPATH", "").split(os.pathsep) if p]
for p in (VERIF, REPO):
    if p in _pp:
        _pp.remove(p)
os.environ["PYTHONPATH"] = os.pathsep.join([REPO, VERIF] + _pp)

if REPO not in sys.path[:2]:
    sys.path.insert(0, REPO)
if VERIF not in sys.path:
    sys.path.insert(1, VERIF)
if os.path.isdir(DEPS) and DEPS not in sys.path:
    sys.path.append(DEPS)  # last: never shadows the repository's own packages

import warnings  # noqa: E402

warnings.filterwarnings("ignore")
import logging  # noqa: E402

logging.disable(logging.CRITICAL)


def assert_repo_tree():
    import mabwiser
    got = os.path.realpath(os.path.dirname(mabwiser.__file__))
    want = os.path.realpath(os.path.join(REPO, "mabwiser"))
    if got != want:
        raise SystemExit("INCONCLUSIVE reason=mabwiser imported from %s, expected %s" % (got, want))
    return got


def ensure_deps():
    """Install icontract / jsonschema from the offline wheelhouse into /verif/.deps if missing.
    Failure is not fatal: contracts fall back to the built-in wrapper, evidence to a built-in validator."""
    if os.path.isdir(os.path.join(DEPS, "icontract")) and os.path.isdir(os.path.join(DEPS, "jsonschema")):
        return True
    import subprocess
    try:
        subprocess.run([sys.executable, "-m", "pip", "install", "-q", "--no-index", "--find-links",
                        "/opt/veriftools/wheels", "--target", DEPS, "icontract", "jsonschema"],
                       check=True, timeout=300, stdout=subprocess.DEVNULL, stderr=subprocess.DEVNULL)
        if DEPS not in sys.path:
            sys.path.append(DEPS)
        return True
    except Exception:
        return False
