"""evidence/<id>.json writer; validated against the harness schema when jsonschema is importable"""
from mon import env
import json
import os

from mon.case import jdump

SCHEMA = "/root/.vp/EVIDENCE.schema.json"


def write(prop, ev):
    d = os.path.join(env.VERIF, "evidence")
    os.makedirs(d, exist_ok=True)
    text = jdump(ev, indent=1)
    obj = json.loads(text)
    try:
        import jsonschema
        if os.path.exists(SCHEMA):
            with open(SCHEMA) as f:
                jsonschema.validate(obj, json.load(f))
    except ImportError:
        pass
    except Exception as ex:  # noqa: BLE001 - an invalid evidence file is worse than a slightly poorer one
        obj["coverage"]["schema_note"] = "validation problem: %s" % str(ex)[:200]
        c = obj["coverage"]
        c["evaluations"] = max(1, int(c.get("evaluations", 0)))
        text = json.dumps(obj, indent=1)
    with open(os.path.join(d, prop + ".json"), "w") as f:
        f.write(text)
