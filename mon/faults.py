"""Catalogue of rejected-call classes for C17 (fault enumeration).

Each class is (name, layer, applies(cfg, sh), make(rs, cfg, sh) -> (description, thunk(mab))).  `layer` says where
the exception is expected to come from: 'facade' (argument validation at the top of the public method),
'convert' (after the first conversion step) or 'inside' (below MAB, from the implementor / numpy).  The
catalogue only *proposes* calls; whether the library rejects one is observed, and a call that is not
rejected is excluded (the property speaks about rejected calls only)."""
from mon import env  # noqa: F401
import numpy as np

from mabwiser.mab import MAB, LearningPolicy as LP, NeighborhoodPolicy as NP
from mon import gen, binarizers


def _batch(rs, cfg, sh, n=4, nf=None):
    return gen.gen_batch(rs, cfg, sh.arms, n, sh.nf if nf is None else nf)


def _train_call(which, mutate, need=None):
    """a fit / partial_fit call with one argument corrupted by mutate(d, r, X, rs, cfg, sh) -> (d, r, X)"""
    def make(rs, cfg, sh):
        b = _batch(rs, cfg, sh)
        d, r, X = np.asarray(b["d"]), np.asarray(b["r"], dtype=float), (None if b["X"] is None else np.asarray(b["X"], dtype=float))
        d, r, X = mutate(d, r, X, rs, cfg, sh)

        def thunk(m):
            f = getattr(m, which)
            return f(d, r) if X is None else f(d, r, X)
        return "%s(d=%s, r=%s, X=%s)" % (which, _sh(d), _sh(r), _sh(X)), thunk
    return make


def _sh(x):
    if x is None:
        return "None"
    if isinstance(x, np.ndarray):
        return "ndarray%s%s" % (x.shape, "" if x.size > 8 else x.tolist())
    return repr(x)[:60]


def ctxl(cfg, sh):
    return gen.is_ctx(cfg)


def ctxfree(cfg, sh):
    return not gen.is_ctx(cfg)


def always(cfg, sh):
    return True


def fitted(cfg, sh):
    return sh.fitted


def _nanr(v):
    def mut(d, r, X, rs, cfg, sh):
        r = r.astype(object) if v is None else r.copy()
        r[int(rs.integers(len(r)))] = v
        return d, (list(r) if v is None else r), X
    return mut


TRAIN_FAULTS = [
    ("decisions_tuple", "facade", always, lambda d, r, X, rs, cfg, sh: (tuple(d.tolist()), r, X)),
    ("decisions_scalar", "facade", always, lambda d, r, X, rs, cfg, sh: (7, r, X)),
    ("rewards_tuple", "facade", always, lambda d, r, X, rs, cfg, sh: (d, tuple(r.tolist()), X)),
    ("rewards_string", "facade", always, lambda d, r, X, rs, cfg, sh: (d, "1010", X)),
    ("len_decisions_rewards", "facade", always, lambda d, r, X, rs, cfg, sh: (d, r[:-1], X)),
    ("len_decisions_contexts", "facade", ctxl, lambda d, r, X, rs, cfg, sh: (d, r, X[:-1])),
    ("reward_nan", "convert", always, _nanr(float("nan"))),
    ("reward_inf", "convert", always, _nanr(float("inf"))),
    ("reward_neginf", "convert", always, _nanr(float("-inf"))),
    ("reward_none", "convert", always, _nanr(None)),
    ("ts_nonbinary_reward", "facade", lambda cfg, sh: cfg["lp"]["kind"] == "ts" and not cfg["lp"].get("binarizer"),
     lambda d, r, X, rs, cfg, sh: (d, r + 0.5, X)),
    ("contexts_missing", "facade", ctxl, lambda d, r, X, rs, cfg, sh: (d, r, None)),
    ("contexts_superfluous", "facade", ctxfree,
     lambda d, r, X, rs, cfg, sh: (d, r, np.asarray(gen.gen_contexts(rs, len(d), 2), dtype=float))),
    ("contexts_1d", "facade", ctxl, lambda d, r, X, rs, cfg, sh: (d, r, X[:, 0].copy())),
    ("contexts_3d", "facade", ctxl, lambda d, r, X, rs, cfg, sh: (d, r, X[:, :, None].copy())),
    ("contexts_string", "facade", ctxl, lambda d, r, X, rs, cfg, sh: (d, r, "contexts")),
    ("contexts_tuple", "facade", ctxl, lambda d, r, X, rs, cfg, sh: (d, r, tuple(map(tuple, X.tolist())))),
]


def _feature_mismatch(which, delta):
    def make(rs, cfg, sh):
        nf = max(1, sh.nf + delta) if sh.nf + delta >= 1 else sh.nf + 1
        b = _batch(rs, cfg, sh, n=int(rs.integers(2, 6)) + (len(sh.arms) if rs.integers(2) else 0), nf=nf)
        if len(b["d"]) > len(sh.arms):
            b["d"][:len(sh.arms)] = list(sh.arms)  # every arm occurs: also arms that have no model yet
        d, r, X = np.asarray(b["d"]), np.asarray(b["r"], dtype=float), np.asarray(b["X"], dtype=float)
        return "%s with %d feature columns instead of %d (d=%s)" % (which, nf, sh.nf, d.tolist()), \
            (lambda m: getattr(m, which)(d, r, X))
    return make


def _too_few_rows(which):
    """a batch with fewer rows than clusters: k-means rejects it from inside training"""
    def make(rs, cfg, sh):
        b = _batch(rs, cfg, sh, n=1)
        d, r, X = np.asarray(b["d"]), np.asarray(b["r"], dtype=float), np.asarray(b["X"], dtype=float)
        return "%s with 1 row for %d clusters" % (which, cfg["np"]["n_clusters"]), (lambda m: getattr(m, which)(d, r, X))
    return make


def _singular_update(which):
    """l2_lambda = 0: the newest arm (no data yet) gets a single row with >= 2 features -> singular normal matrix, while
    arms earlier in the arm list receive ordinary rows in the same batch"""
    def make(rs, cfg, sh):
        target = sh.arms[-1]
        others = [a for a in sh.arms if a != target] or [target]
        n = int(rs.integers(3, 7))
        b = _batch(rs, cfg, sh, n=n)
        b["d"] = [others[int(i)] for i in rs.integers(0, len(others), n - 1)] + [target]
        d, r, X = np.asarray(b["d"]), np.asarray(b["r"], dtype=float), np.asarray(b["X"], dtype=float)
        return "%s with one row for the data-less arm %r (l2_lambda=0)" % (which, target), (lambda m: getattr(m, which)(d, r, X))
    return make


def _singular_other_width(which):
    """l2_lambda = 0: a refit on a single all-zero feature column (another width than the data the bandit holds): singular
    normal matrix for every arm -> rejected from inside training"""
    def make(rs, cfg, sh):
        n = int(rs.integers(3, 7))
        b = _batch(rs, cfg, sh, n=n, nf=1)
        d, r, X = np.asarray(b["d"]), np.asarray(b["r"], dtype=float), np.zeros((n, 1))
        return "%s on one all-zero feature column (bandit holds %d features, l2_lambda=0)" % (which, sh.nf), \
            (lambda m: getattr(m, which)(d, r, X))
    return make


def _singular_huge_row(which):
    """any l2_lambda: a single row [2^30, 2^30, ...] for the newest, data-less arm: x x' swallows the ridge term in double
    precision (2^60 + lambda == 2^60), the normal matrix is exactly singular -> rejected from inside training"""
    def make(rs, cfg, sh):
        target = sh.arms[-1]
        others = [a for a in sh.arms if a != target]
        # ordinary rows of the other arms (trained or not) in the same batch, before the bad row; half of the time every one of them
        k = (len(others) if rs.integers(2) else int(rs.integers(0, 5))) if others else 0
        b = _batch(rs, cfg, sh, n=max(k, 1))
        picks = list(others) if k == len(others) else [others[int(i)] for i in rs.integers(0, len(others), k)]
        d = np.asarray(picks + [target]) if k else np.asarray([target])
        r = np.asarray([float(v) for v in b["r"][:k]] + [1.0])
        X = np.vstack([np.asarray(b["X"], dtype=float)[:k], np.full((1, sh.nf), 2.0 ** 30)]) if k else np.full((1, sh.nf), 2.0 ** 30)
        return "%s with %d ordinary row(s) and the row [2^30]*%d for the data-less arm %r" % (which, k, sh.nf, target), \
            (lambda m: getattr(m, which)(d, r, X))
    return make


def _ragged_contexts(which):
    def make(rs, cfg, sh):
        b = _batch(rs, cfg, sh, n=3)
        X = [list(x) for x in b["X"]]
        X[1] = X[1] + [1.0]
        d, r = np.asarray(b["d"]), np.asarray(b["r"], dtype=float)
        return "%s with ragged context rows" % which, (lambda m: getattr(m, which)(d, r, X))
    return make


def _add_arm(value_fn, binz=None):
    def make(rs, cfg, sh):
        v = value_fn(rs, cfg, sh)
        if binz is None:
            return "add_arm(%r)" % (v,), (lambda m: m.add_arm(v))
        return "add_arm(%r, binarizer=%r)" % (v, binz), (lambda m: m.add_arm(v, binz))
    return make


def _new_label(rs, cfg, sh):
    return (sh.pool or [max(gen.LABELS[cfg["labels"]], key=repr)])[0] if sh.pool else "zz_new"


def _warm(kind):
    def make(rs, cfg, sh):
        w = gen.gen_warm(rs, sh.arms)
        feats = {a: list(f) for a, f in w["features"]}
        q = 0.5
        if kind == "nondict":
            feats = [[a, f] for a, f in feats.items()]
        elif kind == "q_int":
            q = 1
        elif kind == "q_str":
            q = "0.5"
        elif kind == "q_high":
            q = 1.5
        elif kind == "q_neg":
            q = -0.25
        elif kind == "missing_key":
            feats.pop(sh.arms[-1])
        elif kind == "extra_key":
            feats["__extra__"] = [1.0, 1.0]
        elif kind == "ragged":
            feats[sh.arms[0]] = feats[sh.arms[0]] + [1.0]
        elif kind == "nonnumeric":
            feats[sh.arms[0]] = ["x", "y"]
        return "warm_start(%s, q=%r)" % (kind, q), (lambda m: m.warm_start(feats, q))
    return make


def _query(which, kind):
    def make(rs, cfg, sh):
        if kind == "missing":
            return "%s()" % which, (lambda m: getattr(m, which)())
        if kind == "string":
            return "%s('ctx')" % which, (lambda m: getattr(m, which)("ctx"))
        if kind == "1d":
            x = np.asarray(gen.gen_contexts(rs, 1, sh.nf)[0], dtype=float)
            return "%s(1-D ndarray)" % which, (lambda m: getattr(m, which)(x))
        if kind == "scalar":
            return "%s(3.5)" % which, (lambda m: getattr(m, which)(3.5))
        if kind == "wrong_nf":
            x = np.asarray(gen.gen_contexts(rs, 2, sh.nf + 2), dtype=float)
            return "%s(%d columns instead of %d)" % (which, sh.nf + 2, sh.nf), (lambda m: getattr(m, which)(x))
        if kind == "valid_before_fit":
            x = np.asarray(gen.gen_contexts(rs, 2, sh.nf), dtype=float) if gen.is_ctx(cfg) else None
            return "%s(valid args) before fit" % which, (lambda m: getattr(m, which)(x) if x is not None else getattr(m, which)())
        raise ValueError(kind)
    return make


def catalogue():
    cat = []
    for which in ("fit", "partial_fit"):
        for name, layer, applies, mut in TRAIN_FAULTS:
            cat.append(("%s:%s" % (which, name), layer, applies, _train_call(which, mut)))
        cat.append(("%s:ragged_contexts" % which, "facade", ctxl, _ragged_contexts(which)))
    cat.append(("partial_fit:more_features", "inside", lambda cfg, sh: gen.is_ctx(cfg) and sh.fitted, _feature_mismatch("partial_fit", +1)))
    cat.append(("partial_fit:fewer_features", "inside", lambda cfg, sh: gen.is_ctx(cfg) and sh.fitted and sh.nf > 1,
                _feature_mismatch("partial_fit", -1)))
    is_clusters = lambda cfg, sh: cfg["np"]["kind"] == "clusters"  # noqa: E731
    cat.append(("fit:fewer_rows_than_clusters", "inside", is_clusters, _too_few_rows("fit")))
    cat.append(("partial_fit:fewer_rows_than_clusters_first_call", "inside", lambda cfg, sh: is_clusters(cfg, sh) and not sh.fitted,
                _too_few_rows("partial_fit")))
    cat.append(("partial_fit:singular_l2_zero", "inside",
                lambda cfg, sh: cfg["np"]["kind"] == "none" and cfg["lp"]["kind"] in ("lingreedy", "linucb") and sh.fitted
                and sh.nf >= 2 and len(sh.arms) >= 2 and cfg["lp"].get("l2") == 0.0, _singular_update("partial_fit")))
    cat.append(("fit:singular_l2_zero", "inside",
                lambda cfg, sh: cfg["np"]["kind"] == "none" and cfg["lp"]["kind"] in ("lingreedy", "linucb") and sh.fitted
                and sh.nf >= 2 and len(sh.arms) >= 2 and cfg["lp"].get("l2") == 0.0, _singular_update("fit")))
    cat.append(("fit:singular_other_width", "inside",
                lambda cfg, sh: cfg["np"]["kind"] == "none" and cfg["lp"]["kind"] in ("lingreedy", "linucb") and sh.fitted
                and sh.nf >= 2 and cfg["lp"].get("l2") == 0.0, _singular_other_width("fit")))
    cat.append(("partial_fit:singular_huge_row", "inside",
                lambda cfg, sh: cfg["np"]["kind"] == "none" and cfg["lp"]["kind"] in ("lingreedy", "linucb", "lints") and sh.fitted
                and sh.nf >= 2 and len(sh.arms) >= 2 and not cfg["lp"].get("scale"), _singular_huge_row("partial_fit")))
    # the user's own binarizer refuses one reward of the batch (ValueError from inside the call, after the facade validation and -
    # for neighbourhood policies - after whatever the policy does before it converts the rewards)
    strict = lambda cfg, sh: cfg["lp"]["kind"] == "ts" and cfg["lp"].get("binarizer") in ("thr_strict", "inv_strict")  # noqa: E731

    def _neg_reward(d, r, X, rs, cfg, sh):
        r = r.copy()
        r[int(rs.integers(len(r)))] = -1.0
        return d, r, X
    cat.append(("fit:binarizer_raises", "inside", strict, _train_call("fit", _neg_reward)))
    cat.append(("partial_fit:binarizer_raises", "inside", lambda cfg, sh: strict(cfg, sh) and sh.fitted, _train_call("partial_fit", _neg_reward)))
    is_ts = lambda cfg, sh: cfg["lp"]["kind"] == "ts"  # noqa: E731
    cat += [
        # a rejected add_arm that carries a perfectly valid binarizer (only the arm is at fault)
        ("add_arm:duplicate_with_binarizer", "facade", is_ts, _add_arm(lambda rs, cfg, sh: gen.pick(rs, sh.arms), binarizers.inverted)),
        ("add_arm:nan_with_binarizer", "facade", is_ts, _add_arm(lambda rs, cfg, sh: np.nan, binarizers.nonneg)),
        ("add_arm:none_with_binarizer", "facade", is_ts, _add_arm(lambda rs, cfg, sh: None, binarizers.thr_outside)),
    ]
    cat += [
        ("add_arm:duplicate", "facade", always, _add_arm(lambda rs, cfg, sh: gen.pick(rs, sh.arms))),
        ("add_arm:none", "facade", always, _add_arm(lambda rs, cfg, sh: None)),
        ("add_arm:nan", "facade", always, _add_arm(lambda rs, cfg, sh: np.nan)),
        ("add_arm:inf", "facade", always, _add_arm(lambda rs, cfg, sh: np.inf)),
        ("add_arm:binarizer_for_non_ts", "facade", lambda cfg, sh: cfg["lp"]["kind"] != "ts",
         _add_arm(_new_label, binarizers.thr_half)),
        ("add_arm:binarizer_not_callable", "facade", lambda cfg, sh: cfg["lp"]["kind"] == "ts" and cfg["np"]["kind"] != "clusters",
         _add_arm(_new_label, 0.5)),
        ("remove_arm:unknown", "facade", always, lambda rs, cfg, sh: ("remove_arm('__nope__')", lambda m: m.remove_arm("__nope__"))),
        ("remove_arm:none", "facade", always, lambda rs, cfg, sh: ("remove_arm(None)", lambda m: m.remove_arm(None))),
        ("remove_arm:nan", "facade", always, lambda rs, cfg, sh: ("remove_arm(nan)", lambda m: m.remove_arm(np.nan))),
    ]
    for kind in ("nondict", "q_int", "q_str", "q_high", "q_neg", "missing_key", "extra_key"):
        cat.append(("warm_start:" + kind, "facade", always, _warm(kind)))
    for kind in ("ragged", "nonnumeric"):
        cat.append(("warm_start:" + kind, "inside",
                    lambda cfg, sh: cfg["np"]["kind"] == "none" and cfg["lp"]["kind"] != "rnd" and sh.fitted, _warm(kind)))
    for which in ("predict", "predict_expectations"):
        cat.append(("%s:before_fit" % which, "facade", lambda cfg, sh: not sh.fitted, _query(which, "valid_before_fit")))
        cat.append(("%s:contexts_missing" % which, "facade", lambda cfg, sh: gen.is_ctx(cfg) and sh.fitted, _query(which, "missing")))
        cat.append(("%s:contexts_string" % which, "facade", fitted, _query(which, "string")))
        cat.append(("%s:contexts_1d" % which, "facade", fitted, _query(which, "1d")))
        cat.append(("%s:contexts_scalar" % which, "facade", fitted, _query(which, "scalar")))
        cat.append(("%s:wrong_feature_count" % which, "inside", lambda cfg, sh: gen.is_ctx(cfg) and sh.fitted, _query(which, "wrong_nf")))
    return cat


# ---- constructor rejections: no bandit comes to exist; caller objects and bystander bandits must be untouched
def ctor_catalogue():
    E, R, T = LP.EpsilonGreedy, NP.Radius, NP.TreeBandit
    return [
        ("ctor:arms_tuple", lambda: ((1, 2), E(0.1), None, {})),
        ("ctor:arms_none_member", lambda: ([1, None], E(0.1), None, {})),
        ("ctor:arms_nan_member", lambda: ([1, np.nan], E(0.1), None, {})),
        ("ctor:arms_inf_member", lambda: ([1, np.inf], E(0.1), None, {})),
        ("ctor:arms_duplicate", lambda: ([1, 2, 1], E(0.1), None, {})),
        ("ctor:lp_not_a_policy", lambda: ([1, 2], "EpsilonGreedy", None, {})),
        ("ctor:epsilon_str", lambda: ([1, 2], E("0.1"), None, {})),
        ("ctor:epsilon_range", lambda: ([1, 2], E(1.5), None, {})),
        ("ctor:ucb_alpha_neg", lambda: ([1, 2], LP.UCB1(-1), None, {})),
        ("ctor:softmax_tau_zero", lambda: ([1, 2], LP.Softmax(0), None, {})),
        ("ctor:ts_binarizer_not_callable", lambda: ([1, 2], LP.ThompsonSampling(3), None, {})),
        ("ctor:lints_alpha_zero", lambda: ([1, 2], LP.LinTS(0), None, {})),
        ("ctor:linucb_lambda_neg", lambda: ([1, 2], LP.LinUCB(1, -1), None, {})),
        ("ctor:lingreedy_scale_int", lambda: ([1, 2], LP.LinGreedy(0.1, 1, 1), None, {})),
        ("ctor:np_not_a_policy", lambda: ([1, 2], E(0.1), "Radius", {})),
        ("ctor:radius_zero", lambda: ([1, 2], E(0.1), R(0), {})),
        ("ctor:radius_metric_unknown", lambda: ([1, 2], E(0.1), R(2, "nope"), {})),
        ("ctor:radius_probs_sum", lambda: ([1, 2], E(0.1), R(2, "euclidean", [0.5, 0.6]), {})),
        ("ctor:knn_k_zero", lambda: ([1, 2], E(0.1), NP.KNearest(0), {})),
        ("ctor:knn_k_float", lambda: ([1, 2], E(0.1), NP.KNearest(1.5), {})),
        ("ctor:lsh_dims_zero", lambda: ([1, 2], E(0.1), NP.LSHNearest(0, 2), {})),
        ("ctor:lsh_tables_float", lambda: ([1, 2], E(0.1), NP.LSHNearest(2, 2.5), {})),
        ("ctor:clusters_one", lambda: ([1, 2], E(0.1), NP.Clusters(1), {})),
        ("ctor:clusters_minibatch_int", lambda: ([1, 2], E(0.1), NP.Clusters(2, 1), {})),
        ("ctor:tree_params_not_dict", lambda: ([1, 2], E(0.1), T([("max_depth", 2)]), {})),
        ("ctor:tree_params_unknown_key", lambda: ([1, 2], E(0.1), T({"max_depth": 2, "nope": 1}), {})),
        ("ctor:tree_incompatible_lp", lambda: ([1, 2], LP.Softmax(1), T({"max_depth": 2}), {})),
        ("ctor:seed_float", lambda: ([1, 2], E(0.1), None, {"seed": 1.5})),
        ("ctor:n_jobs_zero", lambda: ([1, 2], E(0.1), None, {"n_jobs": 0})),
        ("ctor:n_jobs_float", lambda: ([1, 2], E(0.1), None, {"n_jobs": 2.0})),
        ("ctor:backend_not_str", lambda: ([1, 2], E(0.1), None, {"backend": 3})),
    ]
