"""Seeded workload generators: configurations, data, call histories.

Everything generated here is plain JSON-able data (lists, dicts, numbers, strings) so that a case can be
written to a replay file verbatim; `build(cfg)` turns a configuration into a live MAB and `apply_op` /
`run_ops` drive one through a literal history.  Nothing here looks at library state: generation is a pure
function of the numpy Generator handed in (itself a pure function of VERIF_SEED, property, shard, index).
"""
from mon import env  # noqa: F401
import copy
import math

import numpy as np

from mabwiser.mab import MAB, LearningPolicy as LP, NeighborhoodPolicy as NP
from mon import binarizers

LP_KINDS = ["eg", "ucb", "sm", "pop", "ts", "rnd", "lingreedy", "lints", "linucb"]
CF_KINDS = ["eg", "ucb", "sm", "pop", "ts", "rnd"]
LIN_KINDS = ["lingreedy", "lints", "linucb"]
NP_KINDS = ["none", "radius", "knn", "lsh", "clusters", "tree"]
TREE_OK = ("eg", "ucb", "ts")
LABELS = {
    "int": list(range(24)),
    # string labels of different lengths where one label is a prefix of another (fixed-width numpy string arrays!)
    "str": ["a", "b", "ab", "c", "abc", "bb", "d", "ba", "cd"] + ["arm%d" % i for i in range(10, 25)],
    "float": [i + 0.5 for i in range(24)],
    "negint": [-3, 10, -7, 2, 5, -1, 8, 0, 4] + [(-1) ** i * (20 + i) for i in range(15)],
    # one numeric arm list mixing int and non-integral float labels, first label an int
    "mixnum": [1, 2, 4.5, 3, 0.5, 7, 2.25, 10, 6.75, 12, 13, 8.5] + [(40 + i) if i % 2 else (40 + i + 0.25) for i in range(12)],
    # distinct float labels that agree in their first 6-15 significant digits (computed values, large identifiers)
    "closefloat": [0.1 + 0.2, 0.3, 1000000.0, 1000001.0, 2.5, 2.5 + 2.0 ** -30, 1e15, 1e15 + 1.0, 20240101.0, 20240102.0, 7.0, 7.0 - 2.0 ** -40] +
                  [float(3000000 + i) for i in range(12)],
    # large integral float identifiers (the only float labels the Simulator's confusion matrix accepts)
    "bigfloat": [float(1000001 + 3 * i + (i % 2)) for i in range(24)],
    "strrev": ["z", "y", "x", "w", "v", "u", "t", "s", "r"] + ["q%02d" % (40 - i) for i in range(15)],
}


# metrics used by the twin / differential workloads (any metric the library accepts is in the quantifier; these include
# data-dependent ones - seuclidean derives its variances from the rows it is handed - and non-Minkowski ones)
WIDE_METRICS = ["cityblock", "chebyshev", "euclidean", "sqeuclidean", "cityblock", "euclidean", "seuclidean", "minkowski",
                "canberra", "braycurtis", "cosine"]


def combos(lps=LP_KINDS, nps=NP_KINDS):
    out = []
    for l in lps:
        for p in nps:
            if p == "tree" and l not in TREE_OK:
                continue
            out.append((l, p))
    return out


ALL_COMBOS = combos()
assert len(ALL_COMBOS) == 48


def pick(rs, seq):
    return seq[int(rs.integers(len(seq)))]


# ----------------------------------------------------------------------------------------------- configs
def gen_lp(rs, kind, deterministic=False, binarizer=None):
    """hyper-parameters for a learning policy kind; deterministic=True picks the variant whose expectations
    are a deterministic function of the model (epsilon = 0)"""
    if kind == "eg":
        return {"kind": "eg", "epsilon": 0.0 if deterministic else float(pick(rs, [0.0, 0.0, 0.3, 1.0, 0.05]))}
    if kind == "ucb":
        return {"kind": "ucb", "alpha": float(pick(rs, [0.0, 0.5, 1.0, 1.5, 2.25]))}
    if kind == "sm":
        return {"kind": "sm", "tau": float(pick(rs, [0.05, 0.5, 1.0, 2.0, 50.0]))}
    if kind == "pop":
        return {"kind": "pop"}
    if kind == "ts":
        return {"kind": "ts", "binarizer": binarizer}
    if kind == "rnd":
        return {"kind": "rnd"}
    if kind == "lingreedy":
        return {"kind": "lingreedy", "epsilon": 0.0 if deterministic else float(pick(rs, [0.0, 0.0, 0.25, 1.0])),
                "l2": float(pick(rs, [0.01, 0.5, 1.0, 3.0, 10.0])), "scale": bool(rs.integers(4) == 0)}
    if kind == "lints":
        return {"kind": "lints", "alpha": float(pick(rs, [0.5, 1.0, 2.5, 1e-9 if deterministic else 0.25])),
                "l2": float(pick(rs, [0.01, 0.5, 1.0, 3.0, 10.0])), "scale": bool(rs.integers(4) == 0)}
    if kind == "linucb":
        return {"kind": "linucb", "alpha": float(pick(rs, [0.0, 0.5, 1.0, 2.5])),
                "l2": float(pick(rs, [0.01, 0.5, 1.0, 3.0, 10.0])), "scale": bool(rs.integers(4) == 0)}
    raise ValueError(kind)


def gen_np(rs, kind, n_arms=None, with_probs=False):
    if kind == "none":
        return {"kind": "none"}
    if kind == "radius":
        probs = None
        if with_probs and n_arms:
            probs = [0.0] * n_arms
            k = int(rs.integers(1, n_arms))  # at least one zero entry
            idx = rs.permutation(n_arms)[:k]
            for i in idx:
                probs[int(i)] = 1.0 / k
        return {"kind": "radius", "radius": float(pick(rs, [1.0, 2.0, 3.0, 4.0, 6.0])),
                "metric": pick(rs, WIDE_METRICS), "probs": probs}
    if kind == "knn":
        return {"kind": "knn", "k": int(pick(rs, [1, 2, 3, 4])), "metric": pick(rs, WIDE_METRICS)}
    if kind == "lsh":
        probs = None
        if with_probs and n_arms:
            probs = [0.0] * n_arms
            k = int(rs.integers(1, n_arms))
            idx = rs.permutation(n_arms)[:k]
            for i in idx:
                probs[int(i)] = 1.0 / k
        return {"kind": "lsh", "n_dimensions": int(pick(rs, [1, 2, 3, 4])), "n_tables": int(pick(rs, [1, 2, 3])),
                "probs": probs}
    if kind == "clusters":
        return {"kind": "clusters", "n_clusters": int(pick(rs, [2, 2, 3])), "minibatch": bool(rs.integers(4) == 0)}
    if kind == "tree":
        return {"kind": "tree", "params": pick(rs, [{}, {}, {"max_depth": 2}, {"min_samples_leaf": 2},
                                                   {"max_depth": 1}, {"max_depth": 3, "min_samples_leaf": 2},
                                                   {"max_features": 1}, {"max_features": "sqrt"}, {"max_features": 0.4, "max_depth": 3},
                                                   {"random_state": None}, {"random_state": 5, "max_depth": 1}])}
    raise ValueError(kind)


def gen_cfg(rs, lp_kind, np_kind, labels="int", n_arms=None, deterministic=False, binarizer=None,
            with_probs=False, n_jobs=1, backend=None, seed=None):
    n_arms = int(n_arms if n_arms is not None else rs.integers(2, 5))
    arms = list(LABELS[labels][:n_arms])
    # hostile reward magnitudes: one class per configuration, never for linear policies (their comparisons carry a relative
    # tolerance that assumes rewards of order one)
    stress = int(pick(rs, [0, 1, 2, 3, 4, 5, 6, 7])) if (rs.integers(5) == 0 and lp_kind not in LIN_KINDS) else None
    # the caller's habitual container for contexts (a quarter of the histories have one)
    house = pick(rs, ["series", "series", "narrow", "frame", "list", "i8", "f4", "fortran"]) if rs.integers(4) == 0 else None
    lp = gen_lp(rs, lp_kind, deterministic, binarizer)
    npd = gen_np(rs, np_kind, n_arms, with_probs)
    seed = int(seed if seed is not None else pick(rs, [0, 7, 42, 123456, 2 ** 31 - 1, int(rs.integers(10 ** 6))]))
    if lp.get("epsilon", 0) > 0 and rs.integers(3) == 0:
        # an exploration rate that is bit-for-bit one of the first uniforms of the bandit's own stream: an exact tie in
        # 'draw < epsilon' (the boundary value of that comparison), which the documented reading resolves as 'exploit'
        from mabwiser.utils import create_rng
        lp["epsilon"] = float(create_rng(seed).rand(6)[int(rs.integers(6))])
        lp["epsilon_on_own_stream"] = True
    return {"arms": arms, "labels": labels, "reward_stress": stress, "x_house": house,
            "lp": lp, "np": npd, "seed": seed, "n_jobs": n_jobs, "backend": backend}


def make_lp(d):
    k = d["kind"]
    if k == "eg":
        return LP.EpsilonGreedy(d["epsilon"])
    if k == "ucb":
        return LP.UCB1(d["alpha"])
    if k == "sm":
        return LP.Softmax(d["tau"])
    if k == "pop":
        return LP.Popularity()
    if k == "ts":
        b = d.get("binarizer")
        return LP.ThompsonSampling(binarizers.ALL[b] if isinstance(b, str) else b)
    if k == "rnd":
        return LP.Random()
    if k == "lingreedy":
        return LP.LinGreedy(d["epsilon"], d["l2"], d.get("scale", False))
    if k == "lints":
        return LP.LinTS(d["alpha"], d["l2"], d.get("scale", False))
    if k == "linucb":
        return LP.LinUCB(d["alpha"], d["l2"], d.get("scale", False))
    raise ValueError(k)


def make_np(d):
    k = d["kind"]
    if k == "none":
        return None
    if k == "radius":
        return NP.Radius(d["radius"], d["metric"], None if d.get("probs") is None else list(d["probs"]))
    if k == "knn":
        return NP.KNearest(d["k"], d["metric"])
    if k == "lsh":
        return NP.LSHNearest(d["n_dimensions"], d["n_tables"], None if d.get("probs") is None else list(d["probs"]))
    if k == "clusters":
        return NP.Clusters(d["n_clusters"], d["minibatch"])
    if k == "tree":
        return NP.TreeBandit(dict(d["params"]))
    raise ValueError(k)


def build(cfg, **over):
    c = dict(cfg)
    c.update(over)
    return MAB(list(c["arms"]), make_lp(c["lp"]), make_np(c["np"]), seed=c["seed"], n_jobs=c.get("n_jobs", 1),
               backend=c.get("backend"))


def is_ctx(cfg):
    return cfg["np"]["kind"] != "none" or cfg["lp"]["kind"] in LIN_KINDS


def is_linear(cfg):
    return cfg["lp"]["kind"] in LIN_KINDS


def has_probs(cfg):
    """an empty-neighbourhood distribution is configured: the library offers no way to resize it, so generators keep the
    arm set fixed - unless the configuration explicitly allows arm changes anyway (C04 bystander bandits)"""
    return cfg["np"].get("probs") is not None and not cfg.get("arm_changes_despite_probs")


def reward_kind(cfg):
    k = cfg["lp"]["kind"]
    if k == "ts":
        return "raw10" if cfg["lp"].get("binarizer") else "binary"
    if k == "pop":
        return "nonneg"
    return "dyadic"


def min_rows(cfg):
    p = cfg["np"]
    if p["kind"] == "knn":
        return p["k"]
    if p["kind"] == "clusters":
        return p["n_clusters"] + 2
    return 1


def cfg_sig(cfg):
    return "%s/%s" % (cfg["lp"]["kind"], cfg["np"]["kind"])


# ------------------------------------------------------------------------------------------------- data
def gen_rewards(rs, n, kind, stress=None):
    """stress: None or 0..4 - one hostile magnitude class for the WHOLE history (mixing magnitudes inside one history would
    make the sums inexact and 'bit-for-bit' meaningless): x 2^20, x 2^-20, x 2^40, x 2^-40, + 2^33 (near-equal values), -(2^33 + v)"""
    if kind in ("nonneg", "dyadic") and stress is not None:
        mode = int(stress)
        base = gen_rewards(rs, n, kind)
        if mode >= 6:
            # astronomically large magnitudes (costs booked as negative rewards in the smallest unit): mode 6 every value
            # <= -2^70 (below any finite 'minus infinity' stand-in such as -sys.maxsize), mode 7 x 2^70; powers of two keep
            # the sums exact
            return [-(2.0 ** 70) * (1.0 + abs(v)) for v in base] if (kind == "dyadic" and mode == 6) else [v * 2.0 ** 70 for v in base]
        if mode >= 4:
            # near-equal but different values: a large offset plus a small exactly representable part (mode 5: negated)
            return [2.0 ** 33 + v for v in base] if (kind == "nonneg" or mode == 4) else [-(2.0 ** 33 + v) for v in base]
        scale = float([2.0 ** 20, 2.0 ** -20, 2.0 ** 40, 2.0 ** -40][mode])
        return [v * scale for v in base]
    if kind == "binary":
        return [float(v) for v in rs.integers(0, 2, n)]
    if kind == "nonneg":
        return [float(v) / 8.0 for v in rs.integers(0, 65, n)]
    if kind == "dyadic":
        return [float(v) / 8.0 for v in rs.integers(-64, 65, n)]
    if kind == "raw10":
        return [float(v) / 8.0 for v in rs.integers(0, 80, n)]
    if kind == "float":
        return [float(v) for v in rs.normal(0, 3, n)]
    raise ValueError(kind)


def gen_contexts(rs, n, nf, hi=4):
    return [[float(v) for v in row] for row in rs.integers(0, hi, (n, nf))]


def gen_batch(rs, cfg, arms, n, nf=3, rkind=None, omit=None, distinct_rows=0, hi=4):
    """one training batch over the given (current) arms; `omit` arms never occur in it"""
    pool = [a for a in arms if not omit or a not in omit] or list(arms)
    d = [pool[int(i)] for i in rs.integers(0, len(pool), n)]
    r = gen_rewards(rs, n, rkind or reward_kind(cfg), cfg.get("reward_stress"))
    X = None
    if is_ctx(cfg):
        for _ in range(50):
            X = gen_contexts(rs, n, nf, hi)
            if len({tuple(x) for x in X}) >= min(distinct_rows, n):
                break
    return {"d": d, "r": r, "X": X}


def concat(batches):
    out = {"d": [], "r": [], "X": None}
    for b in batches:
        out["d"] += list(b["d"])
        out["r"] += list(b["r"])
        if b.get("X") is not None:
            out["X"] = (out["X"] or []) + list(b["X"])
    return out


def slice_batch(b, lo, hi):
    return {"d": b["d"][lo:hi], "r": b["r"][lo:hi], "X": None if b.get("X") is None else b["X"][lo:hi]}


# -------------------------------------------------------------------------------------------------- ops
def _arr(x):
    return None if x is None else np.asarray(x, dtype=float)


# containers / dtypes a context matrix may legally arrive in; every one holds exactly the same values (an encoding that cannot
# hold them falls back to float64), so the documented results must not depend on it
X_ENCS = ("list", "i8", "narrow", "narrow", "f4", "frame", "fortran", "series")


def pick_enc(rs, cfg, p=3):
    """context encoding of one call: the history's preferred container (cfg["x_house"], if any) in 3/4 of the calls,
    otherwise None (float64 ndarray) in (p-1)/p of the calls and a random one in the rest"""
    if cfg.get("x_house") and rs.integers(4):
        e = cfg["x_house"]
    elif rs.integers(p):
        return None
    else:
        e = pick(rs, X_ENCS)
    if e == "f4" and cfg["np"]["kind"] not in ("radius", "knn", "lsh"):
        e = "narrow"  # single precision inside k-means / the ridge algebra changes roundings; distances and hashes upcast first
    return e


def enc_X(X, enc, single_feature_model=None, training=False):
    A = np.asarray(X, dtype=float)
    if enc is None or A.ndim != 2 or A.size == 0:
        return A
    integral = bool(np.all(A == np.floor(A)))
    if enc == "list":
        return [[float(v) for v in row] for row in A.tolist()]
    if enc == "i8" and integral and np.abs(A).max() < 2 ** 62:
        return A.astype(np.int64)
    if enc == "narrow" and integral:
        for dt in (np.uint8, np.int8, np.int16, np.int32):
            info = np.iinfo(dt)
            if A.min() >= info.min and A.max() <= info.max:
                return A.astype(dt)
        return A
    if enc == "f4":
        with np.errstate(all="ignore"):
            B = A.astype(np.float32)
        return B if np.array_equal(B.astype(float), A) else A
    if enc == "frame":
        import pandas as pd
        return pd.DataFrame(A, index=range(10, 10 + A.shape[0]), columns=["c%d" % i for i in range(A.shape[1])])
    if enc == "fortran":
        return np.asfortranarray(A)
    if enc == "series":
        import pandas as pd
        # the documented reading of a Series: several rows of a one-feature problem, or one row of several features
        if training:
            if A.shape[1] == 1 and A.shape[0] > 1:
                return pd.Series(A[:, 0])
            if A.shape[0] == 1:
                return pd.Series(A[0])
        elif single_feature_model is not None:
            if single_feature_model and A.shape[1] == 1:
                return pd.Series(A[:, 0])
            if not single_feature_model and A.shape[0] == 1 and A.shape[1] > 1:
                return pd.Series(A[0])
    return A


def _enc_query(m, op):
    X = op["X"]
    e = op.get("x_enc")
    if e is None:
        return _arr(X)
    sfm = None
    if e == "series" and m.is_contextual:
        sfm = len(X[0]) == 1
    return enc_X(X, e, single_feature_model=sfm)


def k5_applies(m, op, exc_name):
    """classifier of known finding K5: a TreeBandit in which no arm owns a fitted tree (every arm that was trained has been
    removed, or D was empty) is queried with a pandas Series -> UnboundLocalError in MAB.__convert_context (there is no tree
    to read the feature count from, so the Series cannot be told to be one row or one column)"""
    imp = m._imp
    if exc_name != "UnboundLocalError" or op.get("x_enc") != "series" or not hasattr(imp, "arm_to_leaf_to_rewards"):
        return False
    if any(len(v) > 0 for v in imp.arm_to_leaf_to_rewards.values()):
        return False
    import pandas as pd
    return isinstance(_enc_query(m, op), pd.Series)


def k6_applies(m, op, exc):
    """classifier of known finding K6: Radius / LSHNearest configured with no_nhood_prob_of_arm, arms added or removed since
    (the list can no longer be matched with the arms), predict on a row without neighbours -> ValueError from numpy's choice"""
    probs = getattr(m._imp, "no_nhood_prob_of_arm", None)
    return (op.get("op") == "predict" and type(exc).__name__ == "ValueError" and "same size" in str(exc)
            and probs is not None and len(probs) != len(m.arms))


def apply_op(m, op):
    """drive one public call described by a literal op dict; returns the canonical result"""
    k = op["op"]
    if k in ("fit", "partial_fit"):
        f = m.fit if k == "fit" else m.partial_fit
        d = np.asarray(op["d"])
        if op.get("d_enc") == "series":
            import pandas as pd
            d = pd.Series(op["d"], index=range(3, 3 + len(op["d"])))
        r = np.asarray(op["r"], dtype={"bool": bool, "int64": np.int64}.get(op.get("r_dtype"), float))
        if op.get("rev_view") and op.get("d_enc") != "series":
            # the same values seen through views with a negative stride (what data[::-1] of a newest-first log is)
            d, r = np.ascontiguousarray(d[::-1])[::-1], np.ascontiguousarray(r[::-1])[::-1]
        if op.get("X") is not None:
            X = enc_X(op["X"], op.get("x_enc"), training=True) if len(op["X"]) else np.zeros((0, int(op.get("nf", 1))))
            f(d, r, X)
        else:
            f(d, r)
        return None
    if k == "predict":
        res = m.predict(_enc_query(m, op)) if op.get("X") is not None else m.predict()
        out = canon(res)
        if op.get("scribble") and isinstance(res, list):
            res.clear()
        return out
    if k == "predict_expectations":
        res = m.predict_expectations(_enc_query(m, op)) if op.get("X") is not None else m.predict_expectations()
        out = canon(res)
        if op.get("scribble"):
            scribble(res)
        return out
    if k == "add_arm":
        b = op.get("binarizer")
        if b is not None:
            m.add_arm(op["arm"], binarizers.ALL[b] if isinstance(b, str) else b)
        else:
            m.add_arm(op["arm"])
        return None
    if k == "remove_arm":
        m.remove_arm(op["arm"])
        return None
    if k == "warm_start":
        m.warm_start({a: list(f) for a, f in op["features"]}, op["q"])
        return None
    if k == "cold_arms":
        return canon(m.cold_arms)
    if k == "policies":
        # the public policy objects (function addresses removed: they differ between processes)
        import re
        return [re.sub(r" at 0x[0-9a-f]+", "", repr(m.learning_policy)), re.sub(r" at 0x[0-9a-f]+", "", repr(m.neighborhood_policy)),
                canon(list(m.arms)), repr(m.seed)]
    if k == "arms":
        return canon(list(m.arms))
    raise ValueError(k)


def scribble(res):
    """the caller owns what a query returned and may do anything with it: overwrite every value, add and delete keys"""
    rows = res if isinstance(res, list) else [res]
    for r in rows:
        if isinstance(r, dict):
            for k in list(r):
                r[k] = -777.0
            r["__scribbled__"] = 1
            if len(r) > 2:
                del r[next(iter(r))]
    if isinstance(res, list):
        res.append("__scribbled__")


def run_ops(m, ops, stop_on_exc=False):
    """apply every op; exceptions are part of the observable behaviour and are recorded by type"""
    out = []
    for op in ops:
        try:
            out.append(apply_op(m, op))
        except Exception as e:  # noqa: BLE001
            out.append(["EXC", type(e).__name__] + (["K6"] if k6_applies(m, op, e) else []))
            if stop_on_exc:
                break
    return out


def canon(x):
    """canonical, exactly comparable, JSON-able form of a library result"""
    if isinstance(x, dict):
        return {"__d": [[canon(k), canon(v)] for k, v in x.items()]}
    if isinstance(x, (list, tuple)):
        return [canon(v) for v in x]
    if isinstance(x, np.ndarray):
        return ["ndarray", canon(x.tolist())]
    if isinstance(x, (bool, np.bool_)):
        return ["bool", bool(x)]
    if isinstance(x, (float, np.floating)):
        v = float(x)
        tag = "f" if type(x) is float else type(x).__name__
        if math.isnan(v):
            return [tag, "nan"]
        return [tag, v.hex()]
    if isinstance(x, (int, np.integer)):
        return ["i" if type(x) is int else type(x).__name__, int(x)]
    if isinstance(x, str):
        return ["s" if type(x) is str else type(x).__name__, str(x)]
    if x is None:
        return None
    return [type(x).__name__, repr(x)]


def decanon(c):
    """value of a canonical scalar (arm label or number)"""
    if c is None:
        return None
    if c[0] in ("f", "float64", "float32", "float16"):
        return float("nan") if c[1] == "nan" else float.fromhex(c[1])
    return c[1]


def exp_rows(c):
    """canonical predict_expectations result -> list of rows [(arm, value), ...] (a list even for one row)"""
    rows = [c] if isinstance(c, dict) else c
    return [[(decanon(k), float(decanon(v))) for k, v in row["__d"]] for row in rows]


def pred_rows(c):
    """canonical predict result -> list of arm values (a list even for one row)"""
    if isinstance(c, list) and c and isinstance(c[0], list):
        return [decanon(v) for v in c]
    return [decanon(c)]


# -------------------------------------------------------------------------------------- history generator
class Shadow:
    """what the generator needs to know to emit only documented-domain calls: the current arm list,
    whether the bandit has been fitted, the feature count in force, the number of stored rows"""

    def __init__(self, cfg, nf=3):
        self.cfg = cfg
        self.arms = list(cfg["arms"])
        self.pool = [a for a in LABELS[cfg["labels"]] if a not in self.arms]
        self.removed = []
        self.fitted = False
        self.nf = nf
        self.rows = 0
        self.vary_nf = False  # opt-in: a refit inside a mixed history may change the number of features


LEN_SCALE = 1  # set per case by mon.worker: the thorough tier stretches the mixed-call part of every tenth history


def gen_ops(rs, cfg, sh, n_ops, kinds, sizes=(1, 2, 3, 5, 8), train_rows=(1, 9), nf_choices=None, rkind=None):
    """a seeded history of public calls, all inside the documented domain, updating the shadow `sh`"""
    ops = []
    if n_ops > 2 and len(kinds) > 2:
        n_ops *= LEN_SCALE
    ctx = is_ctx(cfg)
    guard = 0
    while len(ops) < n_ops and guard < 10 * n_ops + 20:
        guard += 1
        k = pick(rs, kinds)
        if k in ("fit", "partial_fit"):
            isfit = k == "fit" or not sh.fitted
            if isfit and nf_choices and ctx:
                sh.nf = int(pick(rs, nf_choices))
            elif isfit and ctx and sh.fitted and sh.vary_nf and rs.integers(3) == 0:
                sh.nf = int(pick(rs, [1, 1, 2, 3]))  # a refit may bring another number of features
            lo = max(train_rows[0], min_rows(cfg) if isfit else 1)
            n = int(rs.integers(lo, max(lo, train_rows[1]) + 1))
            omit = None
            if len(sh.arms) > 1 and rs.integers(10) < 4:
                omit = [pick(rs, sh.arms)]
            b = gen_batch(rs, cfg, sh.arms, n, sh.nf, rkind, omit,
                          distinct_rows=(cfg["np"]["n_clusters"] if cfg["np"]["kind"] == "clusters" and isfit else 0))
            ops.append({"op": k, "d": b["d"], "r": b["r"], "X": b["X"]})
            if ctx:
                ops[-1]["x_enc"] = pick_enc(rs, cfg)
            sh.rows = n if isfit else sh.rows + n
            sh.fitted = True
        elif k == "add_arm":
            if has_probs(cfg) or not (sh.pool or sh.removed) or len(sh.arms) >= 7:
                continue
            if sh.removed and rs.integers(2):
                a = sh.removed.pop(int(rs.integers(len(sh.removed))))  # re-add a removed label
            elif sh.pool:
                a = sh.pool.pop(0)
            else:
                a = sh.removed.pop(0)
            sh.arms.append(a)
            ops.append({"op": "add_arm", "arm": a})
        elif k == "remove_arm":
            if has_probs(cfg) or len(sh.arms) <= cfg.get("min_arms", 2):
                continue
            a = sh.arms.pop(int(rs.integers(len(sh.arms))))
            sh.removed.append(a)
            ops.append({"op": "remove_arm", "arm": a})
        elif k == "warm_start":
            if not sh.fitted or len(sh.arms) < 2:
                continue
            ops.append(gen_warm(rs, sh.arms))
        elif k in ("predict", "predict_expectations"):
            if not sh.fitted:
                continue
            m = int(pick(rs, sizes))
            if ctx and cfg.get("x_house") == "series" and sh.nf > 1 and rs.integers(2):
                m = 1  # a Series is one row of a multi-feature problem
            if ctx:
                ops.append({"op": k, "X": gen_contexts(rs, m, sh.nf), "x_enc": pick_enc(rs, cfg)})
            elif rs.integers(3) == 0:
                ops.append({"op": k, "X": gen_contexts(rs, m, 2)})  # context-free bandit called with contexts
            else:
                ops.append({"op": k})
        elif k == "cold_arms":
            ops.append({"op": "cold_arms"})
        else:
            raise ValueError(k)
    return ops


def gen_warm(rs, arms, q=None):
    while True:
        feats = [[a, [float(v) for v in rs.integers(0, 3, 2)]] for a in arms]
        if sum(1 for _, f in feats if any(f)) >= 2:
            break
    return {"op": "warm_start", "features": feats,
            "q": float(q if q is not None else pick(rs, [0.0, 0.25, 0.5, 0.75, 1.0]))}


CONT_KINDS = ["partial_fit", "partial_fit", "predict", "predict_expectations", "predict", "add_arm", "remove_arm",
              "warm_start", "fit", "cold_arms"]


def gen_continuation(rs, cfg, sh, n_ops=None, must=("partial_fit", "predict", "predict_expectations")):
    """3-8 public calls; always contains a partial_fit followed by both kinds of query"""
    n_ops = int(n_ops if n_ops is not None else rs.integers(3, 7))
    sh = copy.deepcopy(sh)
    ops = gen_ops(rs, cfg, sh, n_ops, CONT_KINDS)
    for k in must:
        ops += gen_ops(rs, cfg, sh, 1, [k])
    return ops + [{"op": "policies"}]


def short(op):
    """compact rendering of an op for evidence samples / witnesses"""
    k = op["op"]
    if k in ("fit", "partial_fit"):
        return "%s(n=%d,arms=%s)" % (k, len(op["d"]), sorted(set(map(str, op["d"]))))
    if k in ("predict", "predict_expectations"):
        return "%s(m=%s)" % (k, "-" if op.get("X") is None else len(op["X"]))
    if k in ("add_arm", "remove_arm"):
        return "%s(%r)" % (k, op["arm"])
    if k == "warm_start":
        return "warm_start(q=%s)" % op["q"]
    return k
