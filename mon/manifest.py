"""Regenerates /verif/MANIFEST.json from the property modules that exist:  python -m mon.manifest"""
from mon import env
import importlib
import json
import os

BASELINE_OFF = ("cd /repo && env -u MABWISER_VERIF /venv/bin/python -m pytest -ra -q -p no:cacheprovider --timeout=900 "
                "--continue-on-collection-errors")
SETUP = ("/venv/bin/pip install -q --no-index --find-links /opt/veriftools/wheels --target /verif/.deps icontract "
         "jsonschema >/dev/null 2>&1; mkdir -p /verif/evidence /verif/replays /verif/.work; "
         "/venv/bin/python -c \"import sys; sys.path[:0]=['/repo','/verif']; import mon.env as e; e.assert_repo_tree(); print('setup ok')\"")

NOTES = {}


def main():
    props = [json.loads(l) for l in open(os.path.join(env.VERIF, "properties.jsonl"))]
    checks, na = [], []
    for p in props:
        pid = p["id"]
        path = os.path.join(env.VERIF, "mon", "props", pid.lower() + ".py")
        if not os.path.exists(path):
            na.append({"property_id": pid, "reason": "check not built yet (planned, see DESIGN.md section 4)"})
            continue
        mod = importlib.import_module("mon.props." + pid.lower())
        if getattr(mod, "NOT_APPLICABLE", None):
            na.append({"property_id": pid, "reason": mod.NOT_APPLICABLE})
            continue
        checks.append({
            "property_id": pid,
            "quick_cmd": "./check %s --tier quick" % pid,
            "thorough_cmd": "./check %s --tier thorough" % pid,
            "evidence_file": "/verif/evidence/%s.json" % pid,
            "replay_cmd_template": "./check %s --replay {path}" % pid,
            "engine": "mon",
            "level_claimed": {"category": mod.LEVEL,
                              "text": getattr(mod, "LEVEL_TEXT", None) or (
                                  "Held on the executions produced (never 'verified'): seeded hostile workloads drive the real code "
                                  "while a runtime monitor with an independent oracle observes every case; quantifiers are sampled, "
                                  "never enumerated, except where the evidence says exhaustive. This check: " +
                                  " ".join((mod.__doc__ or "").split())[:900]),
                              "design_ref": "DESIGN.md section 4, " + pid},
            "level_note": "; ".join(getattr(mod, "ASSUMPTIONS", [])) or "documented input domain of DESIGN.md section 2",
            "technique": mod.TECHNIQUE,
        })
    man = {
        "version": 1,
        "setup_cmd": SETUP,
        "hooks": {"guard": env.GUARD,
                  "enable": "checks export MABWISER_VERIF=1 and import mabwiser from /repo's working tree (pure Python: nothing to "
                            "build). One source hook: with MABWISER_VERIF=1 *and* MABWISER_VERIF_GB_SCALE=<float> set, "
                            "Simulator._run_train_test_split multiplies its distance-list size estimate by that factor, so that the "
                            "multi-chunk offline / online drivers (otherwise > 1 GB of distances) are reachable with small data (C15, "
                            "C16). Every other observation point is reached from outside (public API, attribute reads named in the "
                            "properties' observe_at, wrapping inside the harness process, sys.monitoring).",
                  "baseline_off_cmd": BASELINE_OFF, "source_commits": ["656ecff"], "add_only": True},
        "engines": [{"name": "mon", "path": "/verif/mon", "serves_properties": [c["property_id"] for c in checks],
                     "kind_free_text": "runtime monitoring: API-boundary recorders, reference-model oracles, twin/differential "
                                       "monitors, always-on result-shape and input-snapshot contracts, schedule perturbation"}],
        "checks": checks,
        "not_applicable": na,
        "notes": "All checks: ./check <id> [--tier quick|thorough]; env VERIF_SEED. exit 0 held / 1 VIOLATION / 3 INCONCLUSIVE. "
                 "Known findings: /verif/known_findings.json (never written at run time).",
    }
    with open(os.path.join(env.VERIF, "MANIFEST.json"), "w") as f:
        json.dump(man, f, indent=1)
    try:
        import jsonschema
        jsonschema.validate(man, json.load(open("/root/.vp/MANIFEST.schema.json")))
        print("MANIFEST.json valid: %d checks, %d not_applicable" % (len(checks), len(na)))
    except ImportError:
        print("MANIFEST.json written (jsonschema not importable)")


if __name__ == "__main__":
    main()
