"""Reference model for C01: a reward ledger updated from the recorded call events only.

fit clears every ledger and N; partial_fit appends; add_arm creates an empty ledger; remove_arm deletes it
(N keeps the removed rows: "all observations since that fit").  Expected statistics are the documented
functions of the ledger, written with math / fractions only - no library code."""
import math


class Ledger:
    def __init__(self, arms):
        self.rewards = {a: [] for a in arms}
        self.N = 0
        self.fitted = False

    def event(self, op):
        k = op["op"]
        if k == "fit" or (k == "partial_fit" and not self.fitted):
            self.rewards = {a: [] for a in self.rewards}
            self.N = 0
            self.fitted = True
        if k in ("fit", "partial_fit"):
            for a, r in zip(op["d"], op["r"]):
                self.rewards[a].append(r)
            self.N += len(op["d"])
        elif k == "add_arm":
            self.rewards[op["arm"]] = []
        elif k == "remove_arm":
            del self.rewards[op["arm"]]

    def arms(self):
        return list(self.rewards)

    def mean(self, a):
        r = self.rewards[a]
        return math.fsum(r) / len(r) if r else 0.0

    def greedy(self):
        return {a: self.mean(a) for a in self.rewards}

    def ucb(self, alpha):
        out = {}
        for a, r in self.rewards.items():
            out[a] = self.mean(a) + alpha * math.sqrt(2 * math.log(self.N) / len(r)) if r else 0.0
        return out

    def softmax(self, tau):
        means = self.greedy()
        mx = max(means.values())
        ex = {a: math.exp((means[a] - mx) / tau) for a in means}
        tot = math.fsum(ex.values())
        return {a: ex[a] / tot for a in means}

    def popularity(self):
        means = self.greedy()
        tot = math.fsum(means.values())
        if tot == 0:
            return None  # normalisation undefined: the library documents a uniform share
        return {a: means[a] / tot for a in means}

    def beta_params(self):
        return {a: (1 + sum(1 for v in r if v == 1), 1 + sum(1 for v in r if v == 0)) for a, r in self.rewards.items()}
