"""Reference model for C03: neighbourhood selection in exact integer arithmetic.

Contexts live on a small integer grid, so cityblock / chebyshev / squared-euclidean distances are integers and
`distance <= radius` can be decided exactly; euclidean is decided on squares (d^2 <= r^2 with r = sqrt(R2) for
an integer or half-integer R2)."""
import itertools
from fractions import Fraction


def dist_key(metric, a, b):
    """integer 'distance key' that orders like the metric (euclidean -> squared distance)"""
    diffs = [abs(int(x) - int(y)) for x, y in zip(a, b)]
    if metric == "cityblock":
        return sum(diffs)
    if metric == "chebyshev":
        return max(diffs)
    if metric in ("sqeuclidean", "euclidean"):
        return sum(d * d for d in diffs)
    raise ValueError(metric)


def radius_value(metric, key):
    """the float radius to configure so that exactly the rows with dist_key <= key are inside (key may be a Fraction)"""
    import math
    if metric == "euclidean":
        return math.sqrt(float(key))
    return float(key)


def radius_rows(metric, rows, q, key):
    return [i for i, x in enumerate(rows) if Fraction(dist_key(metric, x, q)) <= Fraction(key)]


def knn_completions(metric, rows, q, k, limit=200):
    """all admissible k-nearest index sets: rows strictly closer than the k-th distance plus any choice among the tied"""
    keys = [dist_key(metric, x, q) for x in rows]
    kth = sorted(keys)[k - 1]
    strict = [i for i, d in enumerate(keys) if d < kth]
    tied = [i for i, d in enumerate(keys) if d == kth]
    need = k - len(strict)
    out = []
    for comb in itertools.combinations(tied, need):
        out.append(sorted(strict + list(comb)))
        if len(out) > limit:
            return None, len(tied) > need
    return out, len(tied) > need
