"""Reference model for C02: per-arm ridge regression straight from the recorded history.

numpy.linalg.solve on the normal equations built from the raw rows (no incremental update, no explicit
inverse); optional per-arm standardisation with population standard deviation (sigma <= 1e-6 -> 1)."""
import numpy as np


class ArmRidge:
    def __init__(self, X, y, d, lam, scale):
        self.n = len(y)
        self.d, self.lam = d, lam
        self.mu, self.sigma = np.zeros(d), np.ones(d)
        X = np.asarray(X, dtype=float).reshape(self.n, d)
        y = np.asarray(y, dtype=float)
        if scale and self.n:
            self.mu = X.mean(axis=0)
            sd = np.sqrt(((X - self.mu) ** 2).mean(axis=0))
            sd[sd <= 1e-6] = 1.0
            self.sigma = sd
        Z = (X - self.mu) / self.sigma if self.n else X
        self.A = lam * np.eye(d) + Z.T @ Z
        self.beta = np.linalg.solve(self.A, Z.T @ y) if self.n else np.zeros(d)
        self.scaled = bool(scale and self.n)

    def z(self, x):
        x = np.asarray(x, dtype=float)
        return (x - self.mu) / self.sigma if self.scaled else x

    def mean(self, x):
        return float(self.z(x) @ self.beta)

    def quad(self, x):
        """x' (X'X + lambda I)^-1 x  (covariance I/lambda for an arm never observed)"""
        z = self.z(x)
        return float(z @ np.linalg.solve(self.A, z))
