"""Reference for C15: drive a deep copy of the *original* bandit through the public API with the protocol of the
property statement (offline: fit(train), predict the test rows; online: per batch predict, read expectations,
partial_fit).  Stream discipline: reading expectations consumes the bandit's generator exactly when the
simulator's documented protocol does - Radius/KNearest/LSHNearest: from a deep-copied twin (no consumption);
other contextual bandits: predict_expectations after predict on the same object; context-free: stored table.
Nothing of mabwiser.simulator is used."""
import copy

import numpy as np


def as_list(x):
    return x if isinstance(x, list) else [x]


def replay(twin, np_kind, train, test, batch_size, chunk_size=None):
    """chunk_size: when the simulator bounds its memory by walking through the test rows (offline) or through every batch
    (online) in chunks, the documented per-step protocol (predict, then read expectations) applies per chunk"""
    d, r, X = train
    td, tr, tX = test
    ctxual = twin.is_contextual
    nn = np_kind in ("radius", "knn", "lsh")
    if ctxual:
        twin.fit(d, r, X)
    else:
        twin.fit(d, r)
    n = len(td)
    if batch_size == 0:
        batches = [(0, n)]
    else:
        batches = [(s, min(s + batch_size, n)) for s in range(0, n, batch_size)]
    preds, exps = [], []
    for s, e in batches:
        if not ctxual:
            preds += [twin.predict() for _ in range(e - s)]
            exps.append(dict(twin._imp.arm_to_expectation))
        else:
            c = chunk_size if chunk_size and chunk_size > 0 else (e - s)
            for cs in range(s, e, c):
                ce = min(cs + c, e)
                if nn:
                    g = copy.deepcopy(twin)
                    exps += as_list(g.predict_expectations(tX[cs:ce]))
                    preds += as_list(twin.predict(tX[cs:ce]))
                else:
                    preds += as_list(twin.predict(tX[cs:ce]))
                    exps += as_list(twin.predict_expectations(tX[cs:ce]))
        if batch_size > 0:
            if ctxual:
                twin.partial_fit(td[s:e], tr[s:e], tX[s:e])
            else:
                twin.partial_fit(td[s:e], tr[s:e])
    if not ctxual and batch_size == 0:
        exps = dict(twin._imp.arm_to_expectation)
    return preds, exps


def expected_split(n, test_size, is_ordered, seed):
    """independent computation of the test indices"""
    if is_ordered:
        train_size = int(n * (1 - test_size))
        return list(range(train_size, n))
    from sklearn.model_selection import train_test_split
    _, test_idx = train_test_split(list(range(n)), test_size=test_size, random_state=seed)
    return list(test_idx)
