"""C01 - context-free policies compute the documented statistic of each arm's history.

Shape: history + executable reference model (mon.oracles.ledger), observed at the hooked state named by the
property (arm_to_expectation / success / fail counts) after *every* call and at predict_expectations();
randomised outputs are checked by replaying the documented sampler on a clone of the bandit's generator,
with a 6-sigma moment test as the arbiter when the replay disagrees (a change of draw order alone is not
a violation of the property).

As built: Workload extras: 1-19 arms, n_jobs in {1,2,3,-1} (threads), reward magnitudes 2^-40..2^40 and near-equal values (one class per history), arm changes before the first fit; in 1/27 of the cases one batch of 2^20 + k rows laid out arm by arm; 1/12 of the later training calls carry an empty batch. Bandits may be constructed with an empty arm list (every arm arrives through add_arm); reward classes of magnitude 2^70.
"""
from mon import env  # noqa: F401
import copy
import math

import numpy as np

from mon import gen
from mon.oracles.ledger import Ledger

ID = "C01"
LEVEL = "exploration"
TECHNIQUE = "runtime monitor: recorded call history replayed into a reward-ledger reference model; state hooks + sampler replay on a cloned generator"
RULE = ("seeded histories (4-25 ops over fit/partial_fit/add_arm/remove_arm/re-add/predict_expectations) for the 6 "
        "context-free policies x int/str/float labels x dyadic|float rewards; after every op the hooked per-arm "
        "state is compared with the ledger model, every query with the replayed sampler. Non-trivial = history "
        "with a partial_fit omitting an already observed arm, or an arm change after training; distinct = "
        "(policy, label type, feature set, op skeleton)")
BUDGET = {"quick": {"cases": 1280, "shards": 16}, "thorough": {"cases": 40000, "shards": 16, "wall_s": 3600}}
MIN = {"quick": {"evaluations": 3000, "nontrivial": 100, "counters": {"huge_batches": 12}},
       "thorough": {"evaluations": 100000, "nontrivial": 2000, "counters": {"huge_batches": 600}}}
ASSUMPTIONS = ["rewards finite; binary for Thompson, non-negative for Popularity; decisions drawn from the current arms",
               "Popularity with all means zero directly after add_arm (normalisation undefined) is not judged",
               "sampler replay trusts numpy Generator (dirichlet/beta/random) as the documented distributions"]

KINDS = ["fit", "partial_fit", "partial_fit", "partial_fit", "add_arm", "remove_arm", "predict_expectations",
         "predict_expectations"]


def close(o, e, tol):
    if isinstance(o, float) and math.isnan(o):
        return False
    return abs(o - e) <= tol * (1 + abs(e))


def expected_table(cfg, led, pop_dirty):
    k = cfg["lp"]["kind"]
    if k == "eg":
        return led.greedy()
    if k == "ucb":
        return led.ucb(cfg["lp"]["alpha"])
    if k == "sm":
        return led.softmax(cfg["lp"]["tau"])
    if k == "pop":
        t = led.popularity()
        if t is None:
            if pop_dirty:
                return None
            return {a: 1.0 / len(led.arms()) for a in led.arms()}
        return t
    return None


def replay_sampler(cfg, g, table, led, size, single):
    """documented sampler applied to generator clone g -> list of rows {arm: value}"""
    k = cfg["lp"]["kind"]
    arms = led.arms()
    if k == "ucb":
        return [dict(table) for _ in range(size)]
    if k == "eg":
        eps = cfg["lp"]["epsilon"]
        if single:
            if g.rand() < eps:
                return [{a: g.rand() for a in arms}]
            return [dict(table)]
        p = g.rand(size)
        rv = g.rand((size, len(arms)))
        return [dict(zip(arms, rv[i])) if p[i] < eps else dict(table) for i in range(size)]
    if k in ("sm", "pop"):
        alpha = [table[a] + np.finfo(float).eps for a in arms]
        dv = g.dirichlet(alpha, size)
        return [dict(zip(arms, row)) for row in dv]
    if k == "ts":
        par = led.beta_params()
        draws = {a: g.beta(par[a][0], par[a][1], size) for a in arms}
        return [{a: draws[a][i] for a in arms} for i in range(size)]
    if k == "rnd":
        rv = g.rand((size, len(arms)))
        return [dict(zip(arms, row)) for row in rv]
    raise ValueError(k)


def moments(cfg, table, led):
    """documented mean / variance of one draw per arm"""
    k = cfg["lp"]["kind"]
    arms = led.arms()
    out = {}
    if k == "eg":
        eps = cfg["lp"]["epsilon"]
        for a in arms:
            e = eps * 0.5 + (1 - eps) * table[a]
            out[a] = (e, max(eps / 3.0 + (1 - eps) * table[a] ** 2 - e * e, 0.0))
    elif k in ("sm", "pop"):
        al = {a: table[a] + np.finfo(float).eps for a in arms}
        a0 = sum(al.values())
        for a in arms:
            out[a] = (al[a] / a0, al[a] * (a0 - al[a]) / (a0 * a0 * (a0 + 1)))
    elif k == "ts":
        par = led.beta_params()
        for a in arms:
            s, f = par[a]
            out[a] = (s / (s + f), s * f / ((s + f) ** 2 * (s + f + 1)))
    elif k == "rnd":
        for a in arms:
            out[a] = (0.5, 1 / 12.0)
    elif k == "ucb":
        for a in arms:
            out[a] = (table[a], 0.0)
    return out


def moment_test(m, cfg, table, led, n=3000):
    m2 = copy.deepcopy(m)
    rows = m2.predict_expectations(np.zeros((n, 2)))
    mom = moments(cfg, table, led)
    for a, (e, v) in mom.items():
        mean = float(np.mean([row[a] for row in rows]))
        if abs(mean - e) > 6 * math.sqrt(v / n) + 1e-9:
            return "arm %r: sample mean %.5f over %d draws vs documented mean %.5f (sd %.5f)" % (a, mean, n, e, math.sqrt(v))
    return None


def run_case(rs, ctx):
    kind = gen.CF_KINDS[ctx.index % 6]
    labels = ["int", "str", "float", "negint"][(ctx.index // 6) % 4]
    nj = int(gen.pick(rs, [1, 1, 1, 2, 3, -1]))
    cfg = gen.gen_cfg(rs, kind, "none", labels=labels, n_arms=int(gen.pick(rs, [1, 2, 3, 4, 5, 6, 2, 3, 4, 12, 19, 0])), n_jobs=nj,
                      backend="threading" if nj != 1 and rs.integers(2) else None)
    if (ctx.index // 6) % 27 == 5 and cfg.get("reward_stress") in (4, 5):
        # the 2^20-row batch of this case would push the sums of the 2^33 + v class beyond 2^53: no longer exactly summable, and
        # a one-ulp difference of a mean of that magnitude is amplified by 1/tau in Softmax - use a power-of-two scaling instead
        cfg["reward_stress"] = int(cfg["reward_stress"]) - 4
    rk = gen.reward_kind(cfg)
    floaty = kind in ("eg", "ucb", "sm") and rs.integers(4) == 0
    if floaty:
        rk = "float"
    tol = 1e-9 if floaty else 1e-12
    sh = gen.Shadow(cfg)
    n_ops = int(rs.integers(4, 26))
    if cfg["arms"]:
        pre = gen.gen_ops(rs, cfg, sh, int(rs.integers(0, 3)), ["add_arm", "remove_arm"])  # arm changes before first fit
    else:
        # a bandit constructed with an empty arm list: every arm arrives through add_arm
        pre = gen.gen_ops(rs, cfg, sh, int(rs.integers(1, 5)), ["add_arm"])
        ctx.count("constructed_without_arms")
    ops = pre + gen.gen_ops(rs, cfg, sh, 1, ["fit"], rkind=rk) + gen.gen_ops(rs, cfg, sh, n_ops, KINDS, train_rows=(1, 12), rkind=rk)
    # a history (a log slice, a filtered batch) may be empty: fit([], []) still resets, partial_fit([], []) changes nothing
    for o in ops[len(pre) + 1:]:
        if o["op"] in ("fit", "partial_fit") and rs.integers(12) == 0:
            o["d"], o["r"] = [], []
            ctx.count("empty_batches")
    if (ctx.index // 6) % 27 == 5:
        # one very long batch (2^20 + k rows, beyond any plausible internal block size) whose rows come arm by arm, as logs
        # sorted by arm do; then the ordinary life goes on
        nbig = 2 ** 20 + int(rs.integers(1, 2 ** 19))
        arms_now = list(sh.arms)
        cuts = sorted(int(c) for c in rs.integers(0, nbig, len(arms_now) - 1)) if len(arms_now) > 1 else []
        if cuts and rs.integers(2):
            cuts[-1] = min(cuts[-1], 2 ** 20 - 7)  # the last arm's run starts before the 2^20-th row ...
            cuts.sort()
        bounds = [0] + cuts + [nbig]
        order = [arms_now[int(i)] for i in rs.permutation(len(arms_now))]
        dbig = []
        for a, lo, hi in zip(order, bounds[:-1], bounds[1:]):
            dbig += [a] * (hi - lo)
        rbig = gen.gen_rewards(rs, nbig, rk, cfg.get("reward_stress"))
        ops.append({"op": gen.pick(rs, ["fit", "partial_fit"]), "d": dbig, "r": rbig, "X": None})
        sh.rows = nbig
        ops += gen.gen_ops(rs, cfg, sh, 1, ["predict_expectations"]) + gen.gen_ops(rs, cfg, sh, 3, KINDS, train_rows=(1, 12), rkind=rk) + \
            gen.gen_ops(rs, cfg, sh, 1, ["predict_expectations"])
        ctx.count("huge_batches")
    m = gen.build(cfg)
    led = Ledger(cfg["arms"])
    observed = set()
    nontrivial = False
    pop_dirty = False
    skeleton = []
    for step, op in enumerate(ops):
        k = op["op"]
        skeleton.append(k[0] + (str(len(op["d"])) if "d" in op else ""))
        if k in ("fit", "partial_fit"):
            if k == "partial_fit" and led.fitted and any(a in observed and a not in op["d"] for a in led.arms()):
                nontrivial = True
            if k == "fit":
                observed = set()
            observed |= set(op["d"])
            pop_dirty = False
        elif k in ("add_arm", "remove_arm"):
            if led.fitted:
                nontrivial = True
            pop_dirty = (k == "add_arm") or (pop_dirty and k != "remove_arm")
            observed.discard(op["arm"])
        wit = {"cfg": cfg, "ops": ops[:step + 1], "step": step}
        if k == "predict_expectations":
            table = expected_table(cfg, led, pop_dirty)
            if table is None and kind in ("pop",):
                ctx.count("skipped_degenerate_popularity")
                continue
            size = 1 if op.get("X") is None else len(op["X"])
            single = op.get("X") is None or len(op["X"]) == 1
            g = copy.deepcopy(m._rng)
            try:
                res = m.predict_expectations(np.asarray(op["X"])) if op.get("X") is not None else m.predict_expectations()
            except Exception as ex:  # noqa: BLE001
                ctx.violation("predict_expectations raised %s on a documented-domain history" % type(ex).__name__, wit)
                return
            rows = [res] if isinstance(res, dict) else list(res)
            want = replay_sampler(cfg, g, table, led, size, single)
            ctx.ev()
            ctx.count("query_rows", len(rows))
            bad = None
            if len(rows) != len(want):
                bad = "%d rows returned, %d expected" % (len(rows), len(want))
            else:
                for i, (ro, rw) in enumerate(zip(rows, want)):
                    if list(ro.keys()) != list(rw.keys()):
                        bad = "row %d keys %r != %r" % (i, list(ro.keys()), list(rw.keys()))
                        break
                    for a in rw:
                        if not close(float(ro[a]), float(rw[a]), tol):
                            bad = "row %d arm %r: %r != documented %r" % (i, a, float(ro[a]), float(rw[a]))
                            break
                    if bad:
                        break
            if bad:
                if kind == "ucb" or (kind == "eg" and cfg["lp"]["epsilon"] == 0):
                    ctx.violation("%s expectation: %s" % (kind, bad), wit)
                    return
                mt = moment_test(m, cfg, table, led)
                ctx.count("replay_mismatch")
                if mt:
                    ctx.violation("%s draw does not follow the documented distribution: %s; %s" % (kind, bad, mt), wit)
                    return
                ctx.count("replay_mismatch_but_distribution_ok")
            continue
        # state-changing call: record the event, make the call, compare the hooked state
        led.event(op)
        try:
            gen.apply_op(m, op)
        except Exception as ex:  # noqa: BLE001
            ctx.violation("%s raised %s on a documented-domain history" % (k, type(ex).__name__), wit)
            return
        if not led.fitted:
            continue
        imp = m._imp
        if list(m.arms) != led.arms():
            ctx.violation("arm list %r != model %r" % (m.arms, led.arms()), wit)
            return
        if kind == "ts":
            par = led.beta_params()
            ctx.ev()
            got = {a: (imp.arm_to_success_count.get(a), imp.arm_to_fail_count.get(a)) for a in led.arms()}
            if list(imp.arm_to_success_count) != led.arms() or any(
                    float(got[a][0]) != par[a][0] or float(got[a][1]) != par[a][1] for a in par):
                ctx.violation("Thompson Beta parameters %r != 1+successes/1+failures %r" % (got, par), wit)
                return
        elif kind == "rnd":
            ctx.ev()
        else:
            table = expected_table(cfg, led, pop_dirty)
            if table is None:
                ctx.count("skipped_degenerate_popularity")
                continue
            ctx.ev()
            st = imp.arm_to_expectation
            if list(st.keys()) != led.arms():
                ctx.violation("arm_to_expectation keys %r != arms %r" % (list(st.keys()), led.arms()), wit)
                return
            for a in table:
                if not close(float(st[a]), table[a], tol):
                    ctx.violation("%s after %s: arm %r holds %r, documented statistic of its %d rewards is %r" % (
                        kind, k, a, float(st[a]), len(led.rewards[a]), table[a]), wit)
                    return
    if nontrivial:
        ctx.nt(kind, labels, "float" if floaty else "dyadic", "".join(skeleton))
    ctx.sample({"cfg": cfg, "ops": [gen.short(o) for o in ops]})
