"""C02 - linear policies are exact per-arm ridge regressions with the stated bonus (history + model).

Every fit / partial_fit / add_arm event is recorded; at each query the recorded history is handed to
mon.oracles.ridge (numpy.linalg.solve on the raw normal equations) and predict_expectations is compared per
(row, arm): x.beta (LinGreedy eps=0), x.beta + alpha sqrt(x' A^-1 x) (LinUCB), and for LinTS a draw that must
lie within 6 sigma = 6 alpha sqrt(x' A^-1 x) of x.beta for alpha in {1e-9, 1e-6, 1e-3, 0.5} (so it is centred
on x.beta and converges to it as alpha -> 0).

As built: Workload extras: arms whose first rows arrive late through single-row partial_fit, a few single batches of 140000-200000 rows (90% on one arm, scale=True in half of them). A third of the LinGreedy cases explore (epsilon 0.25 / 0.5 / bit-for-bit one of the bandit's own first uniforms): the row draws are replayed from a clone of the generator, exploring rows must be uniform numbers over the arms, every other row - the exact tie included - must be the ridge prediction. A tenth of the small-d cases use the penalty 1e-20 with contexts in units of 1e-9.
"""
from mon import env  # noqa: F401
import math

import numpy as np

from mon import gen
from mon.oracles.ridge import ArmRidge

ID = "C02"
LEVEL = "exploration"
TECHNIQUE = "runtime monitor: recorded training history replayed into an independent ridge-regression oracle (numpy.linalg.solve), compared per row and arm with predict_expectations"
RULE = ("LinGreedy(eps=0) / LinUCB / LinTS x d in {1,2,3,5,8} x query rows m in {1,2,5,9} x lambda in {.01,.5,1,3,10} x alpha "
        "x scale in {False, True(single fit)} x histories fit + 0-3 partial_fit with arms having zero rows and arms added "
        "after fit; Gaussian contexts N(1,4), rewards N(0,9); non-trivial = (d=1 and m>1) or lambda != 1 or an arm with zero "
        "rows or >=2 partial_fit chunks or scale=True; distinct = (policy, d, m, lambda, alpha, scale, history skeleton, zero-row arms)")
BUDGET = {"quick": {"cases": 1200, "shards": 16}, "thorough": {"cases": 30000, "shards": 16, "wall_s": 3600}}
MIN = {"quick": {"evaluations": 3000, "nontrivial": 200, "counters": {"exploiting_rows_under_exploration_tie": 10}},
       "thorough": {"evaluations": 150000, "nontrivial": 5000, "counters": {"exploiting_rows_under_exploration_tie": 300}}}
ASSUMPTIONS = ["tolerance 1e-6 (1+|v|) on deterministic expectations (bounded condition number: lambda >= 0.01, |x| small)",
               "LinTS: a draw outside 6 sigma of x.beta is a violation (false-alarm probability ~2e-9 per comparison)",
               "scale=True: population standard deviation, sigma <= 1e-6 replaced by 1, only with a single fit"]


def classify_k1(kind, alpha, lam, n_rows, x, got, want_mean):
    """K1: unobserved arm initialised with A_inv = lambda*I instead of I/lambda -> LinUCB bonus alpha*sqrt(lambda x'x)"""
    if kind == "linucb" and n_rows == 0 and lam != 1 and alpha > 0:
        pred = want_mean + alpha * math.sqrt(lam * float(np.dot(x, x)))
        if abs(got - pred) <= 1e-6 * (1 + abs(pred)):
            return "K1"
    if kind == "lints" and n_rows == 0 and lam > 1 and alpha > 0:
        # same mechanism seen through LinTS: the draw of an unobserved arm has covariance alpha^2*lambda*I, not alpha^2*I/lambda
        if abs(got - want_mean) <= 6 * alpha * math.sqrt(lam * float(np.dot(x, x))) + 1e-6:
            return "K1"
    return None


def run_case(rs, ctx):
    kind = gen.LIN_KINDS[ctx.index % 3]
    d = int(gen.pick(rs, [1, 1, 2, 3, 5, 8, 16, 33]))  # incl. wide contexts: more features than rows per update
    lam = float(gen.pick(rs, [0.01, 0.5, 1.0, 3.0, 10.0]))
    tiny = d <= 5 and rs.integers(10) == 0
    if tiny:
        # a positive penalty far below machine epsilon, with contexts in correspondingly tiny units (X'X ~ 1e-18): a legal,
        # perfectly conditioned problem after rescaling
        lam = 1e-20
        ctx.count("tiny_penalty_cases")
    scale = bool(rs.integers(4) == 0)
    if ctx.index % 150 == 7:
        scale = bool(rs.integers(2))  # the very long batches: half of them with per-arm standardisation
    if kind == "lingreedy":
        lp = {"kind": kind, "epsilon": 0.0, "l2": lam, "scale": scale}
        alpha = 0.0
    elif kind == "linucb":
        alpha = float(gen.pick(rs, [0.0, 0.5, 1.0, 2.5]))
        lp = {"kind": kind, "alpha": alpha, "l2": lam, "scale": scale}
    else:
        alpha = float(gen.pick(rs, [1e-9, 1e-9, 1e-6, 1e-3, 0.5]))
        lp = {"kind": kind, "alpha": alpha, "l2": lam, "scale": scale}
    labels = gen.pick(rs, ["int", "str", "float"])
    n_arms = int(rs.integers(2, 5))
    cfg = {"arms": list(gen.LABELS[labels][:n_arms]), "labels": labels, "lp": lp, "np": {"kind": "none"},
           "seed": int(rs.integers(10 ** 6)), "n_jobs": int(gen.pick(rs, [1, 1, 2])), "backend": None}
    eps = 0.0
    if kind == "lingreedy" and rs.integers(3) == 0:
        # exploration on: a row explores iff its uniform draw is < epsilon (the draws are replayed from a clone of the bandit's
        # generator); every other row must still be the ridge prediction. Half of these rates are bit-for-bit one of the
        # bandit's own first uniforms: an exact tie, which 'draw < epsilon' resolves as 'exploit'
        from mabwiser.utils import create_rng
        eps = float(create_rng(cfg["seed"]).rand(6)[int(rs.integers(6))]) if rs.integers(2) else float(gen.pick(rs, [0.25, 0.5]))
        lp["epsilon"] = eps
        ctx.count("lingreedy_exploring_cases")
    arms = list(cfg["arms"])
    huge = ctx.index % 150 == 7  # a few cases with a very long single batch (more rows per arm than any internal slice size)
    n_chunks = 1 if (scale or huge) else int(rs.integers(1, 5))
    ops = []
    # one arm stays without rows for the first `late_from` training calls (possibly for ever): its first observations
    # then arrive through partial_fit, often one row at a time
    zero_arm = arms[int(rs.integers(len(arms)))] if rs.integers(2) else None
    late_from = int(rs.integers(1, 6))
    for c in range(n_chunks):
        n = 1 if (c and rs.integers(3) == 0) else int(rs.integers(1 if c else (max(2, d) if d <= 8 else 2), 14))
        if huge:
            n = int(rs.integers(140000, 200000))
        pool = [a for a in arms if a != zero_arm or c >= late_from] or arms
        dd = [pool[int(i)] for i in rs.integers(0, len(pool), n)]
        if huge:
            dd = [pool[0] if rs_ < 0.9 else a for a, rs_ in zip(dd, rs.random(n))]  # most rows belong to one arm
        X = rs.normal(1, 2, (n, d))
        if huge:
            X = X + np.linspace(0, 3, n)[:, None]  # not identically distributed along the batch
        if tiny:
            X = X * 1e-9
        X = X.tolist()
        y = rs.normal(0, 3, n).tolist()
        ops.append({"op": "fit" if c == 0 else "partial_fit", "d": dd, "r": y, "X": X})
        if c == 0 and rs.integers(3) == 0 and len(arms) < 6:
            new = gen.LABELS[labels][len(arms)]
            arms.append(new)
            ops.append({"op": "add_arm", "arm": new})
            if rs.integers(2):
                zero_arm = zero_arm or new
    m = gen.build(cfg)
    hist = {a: ([], []) for a in cfg["arms"]}
    for op in ops:
        if op["op"] == "add_arm":
            hist[op["arm"]] = ([], [])
        else:
            for a, x, y in zip(op["d"], op["X"], op["r"]):
                hist[a][0].append(x)
                hist[a][1].append(y)
        try:
            gen.apply_op(m, op)
        except Exception as ex:  # noqa: BLE001
            ctx.violation("%s raised %s: %s" % (gen.short(op), type(ex).__name__, str(ex)[:80]), {"cfg": cfg, "ops": ops})
            return
    models = {a: ArmRidge(hist[a][0], hist[a][1], d, lam, scale) for a in arms}
    mq = int(gen.pick(rs, [1, 2, 5, 9]))
    Q = rs.normal(1, 2, (mq, d)) * (1e-9 if tiny else 1.0)
    wit = {"cfg": cfg, "ops": ops, "query": Q.tolist()}
    import copy as _copy
    draws = _copy.deepcopy(m._rng).rand(mq) if eps > 0 else None
    try:
        res = m.predict_expectations(Q)
    except Exception as ex:  # noqa: BLE001
        ctx.violation("predict_expectations raised %s: %s" % (type(ex).__name__, str(ex)[:80]), wit)
        return
    rows = [res] if isinstance(res, dict) else res
    if len(rows) != mq:
        ctx.violation("%d rows returned for %d contexts" % (len(rows), mq), wit)
        return
    for i, row in enumerate(rows):
        if draws is not None and draws[i] < eps:
            # an exploring row: uniform random expectations, one per current arm
            ctx.ev()
            ctx.count("exploring_rows")
            if list(row.keys()) != list(arms) or not all(0.0 <= float(v) < 1.0 for v in row.values()):
                ctx.violation("lingreedy epsilon=%r: exploring row %d (draw %r) is not a row of uniform numbers over the arms: %r" % (
                    eps, i, float(draws[i]), dict(row)), wit, kind="lingreedy_explore_row")
                return
            continue
        if draws is not None:
            ctx.count("exploiting_rows_under_exploration" + ("_tie" if draws[i] == eps else ""))
        for a in arms:
            ctx.ev()
            got = float(row[a])
            mean = models[a].mean(Q[i])
            if kind == "lingreedy":
                want, tol = mean, 1e-6 * (1 + abs(mean))
            elif kind == "linucb":
                want = mean + alpha * math.sqrt(max(models[a].quad(Q[i]), 0.0))
                tol = 1e-6 * (1 + abs(want))
            else:
                want = mean
                tol = 6 * alpha * math.sqrt(max(models[a].quad(Q[i]), 0.0)) + 1e-6 * (1 + abs(mean))
            if not abs(got - want) <= tol:
                mech = classify_k1(kind, alpha, lam, models[a].n, models[a].z(Q[i]), got, mean)
                ctx.violation("%s d=%d m=%d lambda=%g alpha=%g scale=%s: row %d arm %r (%d rows): expectation %r, ridge oracle %r "
                              "(allowed deviation %.3g)" % (kind, d, mq, lam, alpha, scale, i, a, models[a].n, got, want, tol),
                              wit, mech=mech, kind="%s|d=%d|m%s1|rows%s0" % (kind, d, ">" if mq > 1 else "=", ">" if models[a].n else "="))
                if mech is None:
                    return
    zero_rows = sorted(repr(a) for a in arms if models[a].n == 0)
    if (d == 1 and mq > 1) or lam != 1 or zero_rows or n_chunks >= 2 or scale:
        ctx.nt(kind, d, mq, lam, alpha, scale, "".join(o["op"][0] for o in ops), len(zero_rows))
    ctx.sample({"cfg": cfg, "d": d, "m": mq, "ops": [gen.short(o) for o in ops], "zero_row_arms": zero_rows})
