"""C03 - Radius and KNearest use exactly the observations in the neighbourhood (history + model).

The stored history is the concatenation of all recorded fit / partial_fit rows; the neighbourhood of a query
is selected by mon.oracles.nhood in exact integer arithmetic (boundary included; every admissible completion of
a k-th distance tie accepted); the reference expectations come from a *fresh* context-free or linear bandit
trained on exactly those rows.  Empty neighbourhoods must give all-NaN expectations and predict must stay
inside the support of the configured empty-neighbourhood distribution.

As built: Randomised learning policies (Thompson, Softmax, Popularity, Random, EpsilonGreedy(eps>0)) are checked too: the reference bandit is seeded with the row's own seed, reproduced from a clone of the bandit's generator (one int32 per row, drawn before partitioning). One 130-row batch in 1/12 of the cases. In a third of the histories the first batch arrives in a narrow dtype (uint8, int16, float32) and later batches bring coordinates outside its range. A quarter of the plain histories keep everything - batches and queries - in one narrow integer dtype. Round 8: a third of the histories with two or more batches remove / re-add / add arms between the batches (rows of a removed arm keep their place in the stored history).
"""
from mon import env  # noqa: F401
import math
from fractions import Fraction

import numpy as np

from mabwiser.mab import MAB
from mon import gen
from mon.oracles import nhood

ID = "C03"
LEVEL = "exploration"
TECHNIQUE = "runtime monitor: recorded history + exact-integer neighbourhood oracle; reference = fresh learning-policy bandit trained on the oracle-selected rows"
RULE = ("Radius / KNearest x {cityblock, chebyshev, sqeuclidean, euclidean} x EpsilonGreedy(0)/UCB1/LinUCB/LinGreedy(0) and, seeded "
        "with the row's own seed, Thompson/Softmax/Popularity/Random/EpsilonGreedy(eps>0) x dims "
        "1-4 on grid {0..3}^d x 5-40 rows over fit + 0-4 partial_fit, queried after every training call; radius placed exactly "
        "on a query-row distance in half of the cases; k in 1..rows; far queries force empty neighbourhoods; "
        "no_nhood_prob_of_arm with zero entries. Non-trivial = query with a row exactly on the boundary / a tie at rank k / an "
        "empty neighbourhood / a partial_fit row inside the neighbourhood; distinct = (policy, metric, lp, dims, feature, sizes)")
BUDGET = {"quick": {"cases": 640, "shards": 16}, "thorough": {"cases": 20000, "shards": 16, "wall_s": 3600}}
MIN = {"quick": {"evaluations": 2000, "nontrivial": 150}, "thorough": {"evaluations": 100000, "nontrivial": 8000}}
ASSUMPTIONS = ["integer-grid contexts: distances exactly computable; euclidean decided on squared distances",
               "the reference trusts the learning-policy code itself (covered by C01 / C02)",
               "KNearest ties with more than 200 admissible completions are not judged (counted as tie_skipped)"]

LPS = ["eg", "ucb", "linucb", "lingreedy", "ts", "sm", "pop", "rnd", "eg_explore", "ucb"]
INT32 = np.iinfo(np.int32).max
METRICS = ["cityblock", "chebyshev", "sqeuclidean", "euclidean"]


def reference(cfg, arms, rows_d, rows_r, rows_X, idx, q, seed=None):
    """fresh bandit of the learning policy alone, trained from scratch on the selected rows; for randomised policies it is
    seeded with the row's seed (one int32 per row, drawn from the bandit's generator before the rows are partitioned)"""
    ref = MAB(list(arms), gen.make_lp(cfg["lp"])) if seed is None else MAB(list(arms), gen.make_lp(cfg["lp"]), seed=int(seed))
    d = np.asarray([rows_d[i] for i in idx])
    r = np.asarray([rows_r[i] for i in idx], dtype=float)
    if gen.is_linear(cfg):
        ref.fit(d, r, np.asarray([rows_X[i] for i in idx], dtype=float))
        return ref.predict_expectations(np.asarray([q], dtype=float))
    ref.fit(d, r)
    return ref.predict_expectations()


def same(a, b, tol):
    if list(a.keys()) != list(b.keys()):
        return False
    for k in a:
        x, y = float(a[k]), float(b[k])
        if math.isnan(x) or math.isnan(y):
            if not (math.isnan(x) and math.isnan(y)):
                return False
        elif abs(x - y) > tol * (1 + abs(y)):
            return False
    return True


def run_case(rs, ctx):
    pk = "radius" if ctx.index % 2 == 0 else "knn"
    lk = LPS[(ctx.index // 2) % len(LPS)]
    randomised = lk in ("ts", "sm", "pop", "rnd", "eg_explore")
    metric = METRICS[(ctx.index // 8) % 4]
    labels = gen.pick(rs, ["int", "str", "float"])
    n_arms = int(rs.integers(2, 5))
    arms = list(gen.LABELS[labels][:n_arms])
    dims = int(rs.integers(1, 5))
    lp = gen.gen_lp(rs, lk, deterministic=True) if lk != "eg_explore" else {"kind": "eg", "epsilon": float(gen.pick(rs, [0.3, 1.0]))}
    stress = int(rs.integers(8)) if (rs.integers(5) == 0 and lk not in ("linucb", "lingreedy")) else None
    pre = {"arms": arms, "labels": labels, "lp": lp, "np": {"kind": pk}, "reward_stress": stress}
    n_chunks = int(rs.integers(1, 6))
    sizes = [int(rs.integers(3, 12))] + [int(rs.integers(1, 8)) for _ in range(n_chunks - 1)]
    chunks = [gen.gen_batch(rs, pre, arms, n, dims) for n in sizes]
    if rs.integers(3) == 0:
        # containers: the first batch arrives in the narrowest dtype that holds it (uint8 grid, single precision, ...), later
        # batches bring coordinates outside that dtype's range (negative, > 255, > 2^24 and odd) in whatever container
        chunks[0]["x_enc"] = gen.pick(rs, ["narrow", "narrow", "f4", "i8"])
        shifts = [0.0, -3.0, -3.0] if lk in ("linucb", "lingreedy") else [0.0, -3.0, 254.0, 70000.0, 16777217.0]
        for c in chunks[1:]:
            sh_ = float(gen.pick(rs, shifts))
            c["X"] = [[v + sh_ for v in row] for row in c["X"]]
            c["x_enc"] = gen.pick(rs, [None, "i8", "narrow", "list", "frame"])
        ctx.count("mixed_container_histories")
    q_enc = None
    if all(c.get("x_enc") is None for c in chunks) and rs.integers(4) == 0:
        # everything the bandit ever sees - every batch and every query - is an array of one narrow integer dtype (counts,
        # pixels): no call gives numpy a reason to promote
        for c in chunks:
            c["x_enc"] = "narrow"
        q_enc = "narrow"
        ctx.count("all_narrow_histories")
    nq = 4 if ctx.tier == "quick" else 6
    all_rows = [x for c in chunks for x in c["X"]]
    Q = []
    for j in range(nq):
        t = j % 4
        if t == 0:
            Q.append(list(all_rows[int(rs.integers(len(all_rows)))]))
        elif t == 3:
            Q.append([50.0 + float(v) for v in gen.gen_contexts(rs, 1, dims)[0]])
        else:
            Q.append(gen.gen_contexts(rs, 1, dims, hi=5)[0])
    if ctx.index % 12 == 5:
        # one long batch: more than 100 query rows go through a single worker call
        Q += gen.gen_contexts(rs, 126, dims, hi=5)
        nq = len(Q)
    boundary = bool(rs.integers(2))
    probs = None
    if pk == "radius":
        pivot_q = Q[int(rs.integers(nq))] if rs.integers(4) else Q[0]
        key = nhood.dist_key(metric, all_rows[int(rs.integers(len(all_rows)))], pivot_q)
        key = Fraction(max(key, 1)) if boundary else Fraction(max(key, 1)) + Fraction(1, 2)
        if key > 2000:
            key = Fraction(3)
        if rs.integers(2):
            probs = [0.0] * n_arms
            kk = int(rs.integers(1, n_arms))
            for i in rs.permutation(n_arms)[:kk]:
                probs[int(i)] = 1.0 / kk
        rad_ = nhood.radius_value(metric, key)
        if boundary and key >= 1 and rs.integers(3) == 0:
            # a hair (2^-40 relative) below a row distance: rows at exactly that distance are outside
            rad_, key = rad_ * (1.0 - 2.0 ** -40), key - Fraction(1, 2)
            ctx.count("radius_a_hair_below_a_row_distance")
        npd = {"kind": "radius", "radius": rad_, "metric": metric, "probs": probs}
    else:
        k = int(rs.integers(1, sizes[0] + 1))
        npd = {"kind": "knn", "k": k, "metric": metric}
    cfg = {"arms": arms, "labels": labels, "lp": lp, "np": npd, "reward_stress": stress, "seed": int(rs.integers(10 ** 6)),
           "n_jobs": int(gen.pick(rs, [1, 1, 2])), "backend": gen.pick(rs, [None, "threading"])}
    if cfg["n_jobs"] == 1:
        cfg["backend"] = None
    # arm changes between training calls (a third of the cases with two or more batches): the stored observations stay "all rows
    # passed to fit and to every later partial_fit" - rows of a removed arm keep their place in the neighbourhood (k slots, UCB1's
    # total count) and come back to life when the label is added again
    arm_ops = len(chunks) > 1 and ctx.index % 3 == 1
    if arm_ops and npd.get("probs") is not None:
        npd["probs"] = probs = None  # no_nhood_prob_of_arm over a changing arm set is C08's subject (known finding K6)
    spare = [a for a in gen.LABELS[labels] if a not in arms]
    m = gen.build(cfg)
    tol = 1e-6 if gen.is_linear(cfg) else 1e-12  # linear algebra on differently ordered neighbour rows (argpartition), far-away queries extrapolate
    rows_d, rows_r, rows_X = [], [], []
    first_len = 0
    wit = {"cfg": cfg, "chunks": chunks, "queries": Q}
    for ci, c in enumerate(chunks):
        if arm_ops and ci > 0:
            cur = list(m.arms)
            what = int(rs.integers(4))
            try:
                if what in (0, 1) and len(cur) > 2:
                    gone = cur[int(rs.integers(len(cur)))]
                    m.remove_arm(gone)
                    ctx.count("arms_removed_with_stored_rows")
                    if what == 1:
                        m.add_arm(gone)
                        ctx.count("removed_label_added_again")
                    else:
                        spare.append(gone)
                elif what == 2 and spare:
                    m.add_arm(spare.pop(int(rs.integers(len(spare)))))
                    ctx.count("arms_added_between_batches")
            except Exception as ex:  # noqa: BLE001
                ctx.violation("%s: arm change raised %s: %s" % (gen.cfg_sig(cfg), type(ex).__name__, str(ex)[:80]), wit)
                return
            cur = list(m.arms)
            c["d"] = [d_ if d_ in cur else cur[k_ % len(cur)] for k_, d_ in enumerate(c["d"])]
        op = dict(c, op="fit" if ci == 0 else "partial_fit")
        try:
            gen.apply_op(m, op)
        except Exception as ex:  # noqa: BLE001
            ctx.violation("%s raised %s: %s" % (gen.short(op), type(ex).__name__, str(ex)[:80]), wit)
            return
        rows_d += c["d"]
        rows_r += c["r"]
        rows_X += c["X"]
        if ci == 0:
            first_len = len(rows_d)
        if ci not in (0, len(chunks) - 1) and rs.integers(2):
            continue
        row_seeds = [None] * len(Q)
        if randomised:
            import copy as _copy
            row_seeds = _copy.deepcopy(m._rng).randint(INT32, size=len(Q))  # the row seeds the call below is going to draw
        try:
            res = m.predict_expectations(gen.enc_X(Q, q_enc) if q_enc and max(max(q) for q in Q) < 256 else np.asarray(Q, dtype=float))
        except Exception as ex:  # noqa: BLE001
            ctx.violation("%s: predict_expectations raised %s: %s" % (gen.cfg_sig(cfg), type(ex).__name__, str(ex)[:80]), wit)
            return
        empties = []
        for j, q in enumerate(Q):
            got = res[j]
            ctx.ev()
            feats = []
            if pk == "radius":
                idx = nhood.radius_rows(metric, rows_X, q, key)
                if any(Fraction(nhood.dist_key(metric, rows_X[i], q)) == key for i in idx):
                    feats.append("boundary")
                cands = [idx]
            else:
                cands, tie = nhood.knn_completions(metric, rows_X, q, npd["k"])
                if cands is None:
                    ctx.count("tie_skipped")
                    continue
                if tie:
                    feats.append("tie")
                idx = cands[0]
            if any(i >= first_len for c_ in cands for i in c_):
                feats.append("pfit_row_inside")
            if not idx:
                feats.append("empty")
                empties.append(j)
                ok = list(got.keys()) == list(m.arms) and all(math.isnan(float(v)) for v in got.values())
                if not ok:
                    ctx.violation("%s: empty neighbourhood (query %r) but expectations are %r" % (gen.cfg_sig(cfg), q, got), wit,
                                  kind="empty_not_nan")
                    return
            else:
                ok = False
                # a standardised linear model extrapolating to a far-away query amplifies the rounding differences that
                # come from the library visiting the neighbour rows in another order (argpartition)
                tol_q = 1e-4 if (gen.is_linear(cfg) and cfg["lp"].get("scale") and max(abs(v) for v in q) > 10) else tol
                for c_ in cands:
                    want = reference(cfg, m.arms, rows_d, rows_r, rows_X, c_, q, row_seeds[j])
                    if same(got, want, tol_q):
                        ok = True
                        break
                if not ok:
                    ctx.violation("%s %s after %d stored rows: query %r -> %r, but the learning policy trained on the %d oracle-"
                                  "selected rows %s gives %r%s" % (gen.cfg_sig(cfg), {k_: v for k_, v in npd.items() if k_ != "kind"},
                                                                    len(rows_d), q, dict(got), len(idx), idx[:12], dict(want),
                                                                    " (none of %d tie completions matches)" % len(cands) if len(cands) > 1 else ""),
                                  wit, kind="%s|%s|%s" % (pk, metric, ",".join(feats)))
                    return
            for f in feats:
                ctx.count("rows_" + f)
            if feats:
                ctx.nt(pk, metric, lk, dims, ",".join(feats), len(rows_d), j)
        if empties and pk == "radius":
            far = np.asarray([Q[j] for j in empties] * (1 if ctx.tier == "quick" else 100), dtype=float)
            pr = m.predict(far)
            pr = pr if isinstance(pr, list) else [pr]
            ctx.ev()
            cur = list(m.arms)
            for x in pr:
                if x not in cur or (probs is not None and probs[cur.index(x)] == 0):
                    ctx.violation("%s: empty neighbourhood, predict returned %r outside the support of %r over %r" % (
                        gen.cfg_sig(cfg), x, probs, cur), wit, kind="empty_support")
                    return
            if len(pr) >= 100:
                p_ = probs or [1.0 / len(cur)] * len(cur)
                for a_, pa in zip(cur, p_):
                    f_ = sum(1 for x in pr if x == a_) / len(pr)
                    if abs(f_ - pa) > 6 * math.sqrt(max(pa * (1 - pa), 1e-12) / len(pr)) + 1e-9:
                        ctx.violation("%s: empty-neighbourhood draws: arm %r frequency %.3f over %d draws vs configured %.3f" % (
                            gen.cfg_sig(cfg), a_, f_, len(pr), pa), wit, kind="empty_frequency")
                        return
                ctx.count("frequency_tests")
    ctx.sample({"cfg": cfg, "chunk_sizes": sizes, "dims": dims, "queries": Q})
