"""C04 - seeded runs are reproducible and bandit instances are isolated (twin across processes + invariant at a hook).

(1) the same scripted scenario is executed (a) in this process alone, (b) in a fresh interpreter alone with
    PYTHONHASHSEED=0, (c) in a fresh interpreter with another hash seed in which 3-5 *other* bandits - other
    seeds, built from the very same policy tuple objects (incl. the default-constructed TreeBandit() and a
    caller-supplied tree_parameters dict) - are constructed, trained and queried between every two steps;
    all output streams must be equal bit-for-bit.
(2) isolation invariant at a hook: while only other bandits are constructed / trained / queried, the canonical
    state digest (SHA-256 of the pickle) of an idle bandit and of the policy tuples it was built from must not
    change; it is checked after every single call on the others, so the witness names the call that leaked.

As built: Scenario extras: warm starts with an exact tie between trained arms (string labels), trees created by add_arm and trained on tie-rich data, LinTS on huge nearly collinear contexts, bystander bandits that add / remove arms although a distribution is configured; hostile neighbours (same training data, arm features one coordinate off by one, values -1 / -2); in every second case the scenario is replayed while mirror bandits (other seed, same call shapes) are used concurrently from other threads of the caller (switch interval 1 microsecond). Interpreter-wide state (numpy error mode, numpy global generator, print options, logging root) is part of the idle invariant. Round 8: half of the LSHNearest scenarios use 53 / 60 hyperplanes with two worker processes (bucket identity across processes with different hash seeds).
"""
from mon import env
import copy
import hashlib
import json
import os
import pickle
import subprocess
import sys
import tempfile

from mon import gen, scenario, twin

ID = "C04"
LEVEL = "exploration"
TECHNIQUE = "runtime twin monitor across interpreters (hash seeds, interleaved bystander bandits sharing policy objects) + idle-bandit state-digest invariant checked after every foreign call"
RULE = ("48 policy combinations x seeds {0, 7, 123456, 2^31-1, random} x scenarios of 6-10 steps (training, arm changes, warm "
        "start, queries); executions: in-process alone, fresh interpreter alone (PYTHONHASHSEED=0), fresh interpreter with "
        "interleaved other bandits sharing the policy tuple objects (PYTHONHASHSEED=1 or random); plus the idle-bandit digest "
        "invariant after every call on the other bandits. Non-trivial = scenario of a randomised policy, or one sharing a "
        "policy-tuple object with an interleaved bandit; distinct = (combo, seed, labels, scenario skeleton)")
BUDGET = {"quick": {"cases": 192, "shards": 16}, "thorough": {"cases": 48 * 12, "shards": 16, "wall_s": 3600}}
MIN = {"quick": {"evaluations": 200, "nontrivial": 40, "counters": {"fresh_interpreters": 100, "idle_digest_checks": 500, "concurrent_replays": 100}},
       "thorough": {"evaluations": 1500, "nontrivial": 250, "counters": {"fresh_interpreters": 1000, "idle_digest_checks": 3000, "concurrent_replays": 600}}}
ASSUMPTIONS = ["OMP/BLAS threads pinned to 1 (k-means reductions are not run-to-run deterministic otherwise)",
               "state hidden in C extensions is not observable by the digest invariant"]

RANDOMISED = {"eg", "sm", "pop", "ts", "rnd", "lints", "lingreedy"}


def digest(obj):
    return hashlib.sha256(pickle.dumps(obj, 5)).hexdigest()


def child(spec, hashseed):
    fd, sp = tempfile.mkstemp(suffix=".json", dir=os.path.join(env.VERIF, ".work"))
    with os.fdopen(fd, "w") as f:
        json.dump(spec, f)
    e = dict(os.environ, PYTHONHASHSEED=str(hashseed))
    try:
        r = subprocess.run([sys.executable, "-m", "mon.scenario", sp], cwd=env.VERIF, env=e, timeout=900,
                           stdout=subprocess.PIPE, stderr=subprocess.PIPE)
        if r.returncode != 0:
            return None, r.stderr.decode(errors="replace")[-400:]
        return json.loads(r.stdout.decode()), None
    except subprocess.TimeoutExpired:
        return None, "timeout"
    finally:
        os.unlink(sp)


def concurrent_twin(cfg, ops, mirrors, ref, ctx, repeats):
    """replays the scenario `repeats` times while every mirror runs its own calls in a loop in its own thread"""
    import threading
    from mon import sched
    stop = threading.Event()
    rounds = [0] * len(mirrors)

    def loop(i, spec):
        while not stop.is_set():
            try:
                m = scenario.build_with(spec["cfg"], *scenario.make_policy_objects(spec["cfg"]))
                for op in spec["ops"]:
                    gen.run_ops(m, [op])
                    if stop.is_set():
                        break
            except Exception:  # noqa: BLE001 - a bystander's own trouble is not what this monitor judges
                pass
            rounds[i] += 1

    threads = [threading.Thread(target=loop, args=(i, sp), daemon=True) for i, sp in enumerate(mirrors)]
    diff = None
    with sched.FastSwitch(1e-6):
        for t in threads:
            t.start()
        try:
            for _ in range(repeats):
                _, out = scenario.run_interleaved(cfg, ops, [])
                ctx.count("concurrent_replays")
                diff = twin.first_diff(json.loads(json.dumps(out)), ref)
                if diff:
                    break
        finally:
            stop.set()
            for t in threads:
                t.join(60)
    ctx.count("concurrent_bystander_rounds", sum(rounds))
    return diff


def gen_other(rs, cfg, same_kind):
    if same_kind:
        o = copy.deepcopy(cfg)
        o["seed"] = int(rs.integers(1, 10 ** 6))
        o["arms"] = list(cfg["arms"])
        o["arm_changes_despite_probs"] = True  # a bystander may add / remove arms even with a configured distribution
    else:
        l, p = gen.ALL_COMBOS[int(rs.integers(48))]
        o = gen.gen_cfg(rs, l, p, labels=cfg["labels"], n_arms=len(cfg["arms"]))
    sh = gen.Shadow(o, 2)
    ops = gen.gen_ops(rs, o, sh, 1, ["fit"], train_rows=(5, 12)) + gen.gen_ops(
        rs, o, sh, int(rs.integers(3, 8)), ["partial_fit", "predict", "predict_expectations", "add_arm", "remove_arm", "fit"])
    return {"cfg": o, "ops": ops, "reuse_policy_objects": same_kind}


def run_case(rs, ctx):
    l, p = gen.ALL_COMBOS[ctx.index % 48]
    labels = ["str", "int", "float"][(ctx.index // 48) % 3]
    seed = [0, 7, 123456, 2 ** 31 - 1, int(rs.integers(10 ** 6))][(ctx.index // 48 + ctx.index) % 5]
    cfg = gen.gen_cfg(rs, l, p, labels=labels, n_arms=int(rs.integers(2, 5)), seed=seed, with_probs=bool(rs.integers(4) == 0))
    if p == "tree":
        mode = int(rs.integers(3))
        if mode == 0:
            cfg["np"] = {"kind": "tree", "params": {}, "default": True}  # NeighborhoodPolicy.TreeBandit(): shared default dict
        elif mode == 1:
            # tie-rich splits: random_state matters (an explicit None is scikit-learn's own default and a legal value)
            cfg["np"] = {"kind": "tree", "params": gen.pick(rs, [{"max_depth": 1}, {"max_depth": 1, "random_state": None}])}
    if p == "lsh" and rs.integers(2) == 0:
        # wide signatures (more sign bits than a double's mantissa) hashed by worker *processes* during training and by the calling
        # process for short queries: whatever identifies a bucket has to mean the same in every process, whatever its hash seed
        cfg["np"]["n_dimensions"] = int(gen.pick(rs, [53, 60]))
        cfg["n_jobs"], cfg["backend"] = 2, None
        ctx.count("wide_lsh_signatures_across_worker_processes")
    nf = 3 if l == "lints" else 2
    sh = gen.Shadow(cfg, nf)
    ops = gen.gen_ops(rs, cfg, sh, 1, ["fit"], train_rows=(6, 16)) + gen.gen_ops(
        rs, cfg, sh, int(rs.integers(5, 10)),
        ["partial_fit", "predict", "predict_expectations", "predict", "add_arm", "remove_arm", "warm_start", "fit"]) + \
        gen.gen_ops(rs, cfg, sh, 2, ["predict_expectations", "predict"])
    hostile = None
    # string labels are the ones whose set / dict order depends on the interpreter's hash seed: more tie scenarios for them
    variant = int(gen.pick(rs, [1, 1, 2, 0])) if labels == "str" else int(rs.integers(3))
    if p == "none" and l != "rnd" and len(cfg["arms"]) >= 3 and variant == 2:
        # hostile neighbours: the other bandits of the process are given the *same* training data and nearly the same arm
        # features (one coordinate off by one; values include -1 / -2, which CPython hashes alike): any process-wide memo or
        # cache keyed by something lossy shows up as a different warm start
        cold = cfg["arms"][-1]
        trained = cfg["arms"][:-1]
        ops[0]["d"] = [a if a != cold else gen.pick(rs, trained) for a in ops[0]["d"]]
        ops[0]["d"][:len(trained)] = list(trained)
        vals = [-2.0, -1.0, -1.0, -2.0, 0.0, 1.0, 3.0]
        feats = [[a, [gen.pick(rs, vals), gen.pick(rs, vals)]] for a in cfg["arms"]]
        ws = {"op": "warm_start", "features": feats, "q": 1.0}
        ops = [ops[0], ws] + [o for o in ops[1:] if o["op"] not in ("fit", "remove_arm")]
        hostile = (copy.deepcopy(ops[0]), feats, trained)
        ctx.count("hostile_neighbour_scenarios")
    if p == "none" and l != "rnd" and len(cfg["arms"]) >= 3 and variant == 1:
        # a warm start whose nearest trained arm is not unique (identical feature vectors, different learned state): any
        # tie-break that depends on set / hash order shows up across interpreters with different hash seeds
        cold = cfg["arms"][-1]
        trained = cfg["arms"][:-1]
        ops[0]["d"] = [a if a != cold else gen.pick(rs, trained) for a in ops[0]["d"]]
        ops[0]["d"][:len(trained)] = list(trained)
        feats = [[a, [1.0, 2.0]] for a in trained] + [[cold, [2.0, 1.0]]]
        tie = {"op": "warm_start", "features": feats, "q": 1.0}
        ops = [ops[0], tie] + [o for o in ops[1:] if o["op"] not in ("fit",)]
        ops = [o for i, o in enumerate(ops) if i < 2 or not (o["op"] == "remove_arm")]
    if p == "tree" and not gen.has_probs(cfg) and rs.integers(2):
        # a tree that is created by add_arm and trained by partial_fit on tie-rich data (two identical columns): which of the
        # tied splits is taken depends on the tree's random_state, queries disagree on the two columns
        new = [a for a in gen.LABELS[labels] if a not in cfg["arms"]][0]
        n_new = int(rs.integers(4, 9))
        col = [float(v) for v in rs.integers(0, 4, n_new)]
        rows = [[c, c] for c in col]
        rew = [1.0 if c >= 2 else 0.0 for c in col]
        if len(set(rew)) == 1:
            rew[0], col[0] = 1.0 - rew[0], 3.0 if rew[0] == 1.0 else 0.0
            rows[0] = [col[0], col[0]]
        q = [[0.0, 3.0], [3.0, 0.0], [1.0, 2.0], [2.0, 1.0]]
        ops = [ops[0], {"op": "add_arm", "arm": new}, {"op": "partial_fit", "d": [new] * n_new, "r": rew, "X": rows},
               {"op": "predict_expectations", "X": q}, {"op": "predict", "X": q}] + \
            [o for o in ops[1:] if o["op"] in ("predict", "predict_expectations", "partial_fit")]
        ops = [o for o in ops if not (o["op"] == "partial_fit" and any(a not in cfg["arms"] + [new] for a in o["d"]))]
    if l == "lints" and rs.integers(2):
        # hostile contexts: huge, nearly collinear columns (raw epoch seconds): the sampling covariance is numerically
        # indefinite, whatever the library does then (raise or fall back) must be the same in every execution
        cfg["lp"]["scale"] = False
        for o in ops:
            if o.get("X") is not None:
                o["X"] = [[1.7e9 + 97.0 * j + float(v) * float(rs.integers(1, 200)) for j, v in enumerate(row)] for row in o["X"]]
    others = [gen_other(rs, cfg, same_kind=(j < 2)) for j in range(int(rs.integers(3, 6)))]
    if hostile:
        for o in others[:2]:
            pf = copy.deepcopy(hostile[1])
            victim = gen.pick(rs, hostile[2])
            for a, f_ in pf:
                if a == victim:
                    f_[int(rs.integers(2))] += float(gen.pick(rs, [-1.0, 1.0]))
            o["ops"] = [copy.deepcopy(hostile[0]), {"op": "warm_start", "features": pf, "q": 1.0}] + o["ops"]
    wit = {"cfg": cfg, "ops": ops, "others": [{"cfg": o["cfg"], "ops": [gen.short(x) for x in o["ops"]],
                                                "reuse_policy_objects": o["reuse_policy_objects"]} for o in others]}
    # (a) in-process, alone
    _, ref = scenario.run_interleaved(cfg, ops, [])
    ref = json.loads(json.dumps(ref))
    # (2) isolation invariant: idle bandit + its policy tuples, checked after every call on the others
    lp, np_ = scenario.make_policy_objects(cfg)
    idle = scenario.build_with(cfg, lp, np_)
    half = len(ops) // 2
    # the idle twin receives *equal* arguments, not identical ones: its arm-feature dictionaries hold the same items inserted in
    # the opposite order (dict equality ignores insertion order; equal call sequences must give equal results)
    ops_eq = [dict(o, features=list(reversed(o["features"]))) if o["op"] == "warm_start" else o for o in ops]
    ops_ref, ops = ops, ops_eq
    out_idle = gen.run_ops(idle, ops[:half])
    ps0 = twin.process_state()
    d0 = [digest(idle), digest(lp), digest(tuple(np_) if np_ is not None else None)]
    leak = []

    def hook(desc):
        ctx.count("idle_digest_checks")
        if not leak:
            d1 = [digest(idle), digest(lp), digest(tuple(np_) if np_ is not None else None)]
            psd = twin.process_state_diff(ps0, twin.process_state())
            if psd:
                leak.append((desc, "interpreter-wide state (%s)" % ", ".join(psd)))
            elif d1 != d0:
                leak.append((desc, ["bandit state", "learning-policy tuple", "neighbourhood-policy tuple"][[a != b for a, b in zip(d0, d1)].index(True)]))
    live = {}
    for j, o in enumerate(others):
        live[j] = scenario.build_with(o["cfg"], lp, np_) if o["reuse_policy_objects"] else \
            scenario.build_with(o["cfg"], *scenario.make_policy_objects(o["cfg"]))
        hook("construct other #%d %s seed=%d (same policy objects: %s)" % (j, gen.cfg_sig(o["cfg"]), o["cfg"]["seed"], o["reuse_policy_objects"]))
        for op in o["ops"]:
            gen.run_ops(live[j], [op])
            hook("other #%d %s: %s" % (j, gen.cfg_sig(o["cfg"]), gen.short(op)))
        c = copy.deepcopy(live[j])
        gen.run_ops(c, o["ops"][-2:])
        hook("deep copy of other #%d used" % j)
    ctx.ev()
    if leak:
        ctx.violation("%s seed=%d: the %s of an idle bandit changed during '%s'" % (gen.cfg_sig(cfg), seed, leak[0][1], leak[0][0]),
                      wit, kind="idle_digest|" + gen.cfg_sig(cfg))
        return
    out_idle += gen.run_ops(idle, ops[half:])
    ops = ops_ref
    ctx.ev()
    d = twin.first_diff(json.loads(json.dumps(out_idle)), ref)
    if d:
        ctx.violation("%s seed=%d: a bandit that idled while other bandits (sharing its policy objects) were used differs from the "
                      "same scenario run alone: %s" % (gen.cfg_sig(cfg), seed, d), wit, kind="in_process_isolation|" + gen.cfg_sig(cfg))
        return
    # (d) other bandits are used *at the same time* from other threads of the caller (a server answering several models):
    # mirrors of the scenario (other seed, shifted data, identical call shapes) plus one unrelated bandit loop in their own
    # threads while the scenario is replayed; the interpreter hands the GIL over every microsecond
    # (not for the scenarios that train in worker *processes*: several caller threads submitting to joblib's one reusable process
    # pool at the same time is joblib's own subject - it answers with RuntimeError now and then - and no state of a bandit)
    if ((ctx.index // 48 + ctx.index) % 2 == 0 or p == "none") and cfg.get("n_jobs", 1) == 1:  # every case without neighbourhood policy (they are cheap)
        mirrors = []
        for k_ in range(2):
            mc = copy.deepcopy(cfg)
            mc["seed"] = int(seed + 1 + k_)
            mo = copy.deepcopy(ops)
            for o in mo:
                if o.get("X") is not None:
                    o["X"] = [[v + 1.0 + k_ for v in row] for row in o["X"]]
            mirrors.append({"cfg": mc, "ops": mo})
        mirrors.append({"cfg": others[-1]["cfg"], "ops": others[-1]["ops"]})
        if p == "none":
            mirrors.append(copy.deepcopy(mirrors[0]))  # cheap policies: one more mirror and more replays
        d = concurrent_twin(cfg, ops, mirrors, ref, ctx, repeats=(3 if ctx.tier == "quick" else 5) * (8 if p == "none" else 1))
        ctx.ev()
        if d:
            ctx.violation("%s seed=%d: while other bandits were being used from other threads, the scenario gave other results "
                          "than alone: %s" % (gen.cfg_sig(cfg), seed, d), wit, kind="concurrent_callers|" + gen.cfg_sig(cfg))
            return
    # (b), (c) fresh interpreters
    runs = [("alone, PYTHONHASHSEED=0", {"cfg": cfg, "ops": ops, "others": []}, 0),
            ("interleaved with %d other bandits, PYTHONHASHSEED=%s" % (len(others), "1" if ctx.index % 2 else "random"),
             {"cfg": cfg, "ops": ops, "others": others}, 1 if ctx.index % 2 else "random")]
    if ctx.tier == "thorough":
        runs.append(("alone, PYTHONHASHSEED=random", {"cfg": cfg, "ops": ops, "others": []}, "random"))
    for desc, spec, hs in runs:
        res, err = child(spec, hs)
        ctx.count("fresh_interpreters")
        if res is None and err == "timeout":
            ctx.count("fresh_interpreter_timeouts")  # a watchdog firing is inconclusive for this case, never a verdict
            return
        if res is None:
            ctx.violation("%s: scenario could not be executed in a fresh interpreter (%s): %s" % (gen.cfg_sig(cfg), desc, err), wit,
                          kind="child_failed")
            return
        ctx.ev()
        d = twin.first_diff(res["out"], ref)
        if d:
            ctx.violation("%s seed=%d: execution '%s' differs from the in-process execution alone: %s" % (gen.cfg_sig(cfg), seed, desc, d),
                          wit, kind="cross_process|%s|%s" % (gen.cfg_sig(cfg), "interleaved" if spec["others"] else "alone"))
            return
    if l in RANDOMISED or p in ("lsh", "clusters", "tree") or any(o["reuse_policy_objects"] for o in others):
        ctx.nt(gen.cfg_sig(cfg), seed, labels, "".join(o["op"][0] for o in ops))
    ctx.sample({"cfg": cfg, "scenario": [gen.short(o) for o in ops], "others": [gen.cfg_sig(o["cfg"]) for o in others]})
