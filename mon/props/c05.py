"""C05 - results do not depend on n_jobs, backend or scheduling (twin + exhaustive partitions + hooks).

Six cooperating monitors, selected by case index:
 D  _partition_contexts(n) for every n <= 64 and every n_jobs in -4..70 (without 0): ordered exact cover (exhaustive)
 C  every contiguous partition of n <= 7 query rows: concatenating imp._predict_contexts(chunk, is_predict,
    seeds[chunk], start) over fresh deep copies must equal the unpartitioned call (exhaustive per case)
 A  black box, threads: same scenario under several (n_jobs, 'threading') vs n_jobs=1, bit-for-bit
 B  black box, processes: backend None/loky/multiprocessing
 E  real threads with yield injection (sys.monitoring) on the shared-memory fit tasks: model equals n_jobs=1
 F  every completion order of the fit / hash-insert tasks through a permuting executor with recording dict
    proxies: disjoint write sets, no read of a foreign write, identical model for every order
 G  monitor A's comparison executed inside a multiprocessing child (spawned) (the caller may itself be a pool worker)
Half of the thread runs of A (and all of G) hand the GIL over every microsecond (sys.setswitchinterval), so that worker
threads interleave inside pure-Python sections."""
from mon import env  # noqa: F401
import copy
import itertools
import multiprocessing as mp

import numpy as np

from mon import gen, rngs, sched, twin

ID = "C05"
LEVEL = "exploration"
TECHNIQUE = ("runtime twin monitor over (n_jobs, backend); exhaustive enumeration of contiguous partitions through the real "
             "_predict_contexts; sys.monitoring yield injection in joblib threads; permuting executor with recording dict proxies")
RULE = ("D: all (n, n_jobs) with n<=64, n_jobs in -4..70; C: 39 neighbourhood combinations x all 2^(n-1) contiguous partitions "
        "of n in 4..7 rows x predict/expectations; A/B: 48 combinations x (n_jobs, backend) variants incl. more workers than rows, "
        "-1, 64, process back-ends; E: fit/partial_fit of every policy with a per-arm task and LSH hashing under yield-injected "
        "threads; F: all task permutations (<=4 tasks, else 24 sampled) with write-set recording. Non-trivial = more rows than "
        "workers with a randomised policy / a partition with an inner boundary / an overlapping interleaving / a non-identity "
        "task order; distinct = (monitor, combo, variant, sizes | interleaving signature)")
BLOCK = {"D": 1, "C": 39, "A": 96, "B": 12, "E": 60, "F": 44, "G": 12}
ORDER = ["D", "C", "A", "B", "E", "F", "G"]
TOTAL = sum(BLOCK.values())
BUDGET = {"quick": {"cases": TOTAL, "shards": 12}, "thorough": {"cases": TOTAL * 12, "shards": 16, "wall_s": 3600}}
MIN = {"quick": {"evaluations": 2000, "nontrivial": 150,
                 "counters": {"partitions_enumerated": 500, "partition_fn_checks": 4000, "thread_runs": 100,
                              "overlapping_interleavings": 20, "task_orders": 150, "process_backend_cases": 6,
                              "stressed_thread_calls": 100, "mp_child_runs": 8}},
       "thorough": {"evaluations": 20000, "nontrivial": 1500,
                    "counters": {"partitions_enumerated": 8000, "partition_fn_checks": 4000, "thread_runs": 1500,
                                 "overlapping_interleavings": 300, "task_orders": 2000, "process_backend_cases": 80,
                                 "stressed_thread_calls": 1500, "mp_child_runs": 100}}}
ASSUMPTIONS = ["Clusters cases use contexts in general position (k-means distance by matrix product may flip an exact tie with the chunk shape)",
               "process back-ends import the same /repo tree (PYTHONPATH exported by mon.env)",
               "a race inside a GIL-released NumPy section would not be seen; the disjoint-write-set invariant is the reason observed schedules generalise",
               "K2 classifier: TreeBandit with Thompson / EpsilonGreedy(eps>0) only, and only if the defect-aware model reproduces the output"]
EXHAUSTIVE_NOTE = ("_partition_contexts: all n<=64 x n_jobs in -4..70; per C-case: all 2^(n-1) contiguous partitions; "
                   "per F-case with <=4 tasks: all task permutations")

NP_COMBOS = [c for c in gen.ALL_COMBOS if c[1] != "none"]
assert len(NP_COMBOS) == 39
INT32 = np.iinfo(np.int32).max


def is_k2(cfg):
    return cfg["np"]["kind"] == "tree" and (cfg["lp"]["kind"] == "ts" or (cfg["lp"]["kind"] == "eg" and cfg["lp"]["epsilon"] > 0))


def jitter(rs, X):
    return [[v + float(rs.uniform(0, 0.01)) for v in row] for row in X]


def scenario_ops(rs, cfg, nf, m_rows):
    sh = gen.Shadow(cfg, nf)
    ops = gen.gen_ops(rs, cfg, sh, 1, ["fit"], train_rows=(8, 20)) + gen.gen_ops(rs, cfg, sh, 1, ["partial_fit"], train_rows=(2, 8))
    if cfg["np"]["kind"] == "clusters":
        for o in ops:
            o["X"] = jitter(rs, o["X"])
    for m in m_rows:
        for k in ("predict_expectations", "predict"):
            if gen.is_ctx(cfg):
                X = gen.gen_contexts(rs, m, nf)
                ops.append({"op": k, "X": jitter(rs, X) if cfg["np"]["kind"] == "clusters" else X})
            else:
                ops.append({"op": k, "X": gen.gen_contexts(rs, m, 2)} if m > 1 else {"op": k})
    ops += gen.gen_ops(rs, cfg, sh, 1, ["partial_fit"], train_rows=(2, 6))
    if cfg["np"]["kind"] == "clusters":
        ops[-1]["X"] = jitter(rs, ops[-1]["X"])
    ops += [copy.deepcopy(o) for o in ops if o["op"].startswith("predict")][:2]
    return ops


# ------------------------------------------------------------------------------------------------------ D
def run_D(rs, ctx):
    from mabwiser.greedy import _EpsilonGreedy
    from mabwiser.utils import create_rng
    cpu = mp.cpu_count()
    for n_jobs in [j for j in range(-4, 71) if j != 0]:
        imp = _EpsilonGreedy(create_rng(1), [1, 2], n_jobs, None, 0.0)
        for n in list(range(1, 65)) + [100, 257, 1000, 4097, 32768, 32769, 65537, 100003, 1048577]:
            ctx.ev()
            ctx.count("partition_fn_checks")
            k, sizes, starts = imp._partition_contexts(n)
            want_k = min(n_jobs if n_jobs > 0 else max(cpu + 1 + n_jobs, 1), n)
            ok = (k == want_k and 1 <= k <= n and len(sizes) == k and len(starts) == k + 1 and starts[0] == 0 and starts[-1] == n
                  and all(s >= 1 for s in sizes) and sum(sizes) == n
                  and all(starts[i + 1] - starts[i] == sizes[i] for i in range(k)) and max(sizes) - min(sizes) <= 1)
            if not ok:
                ctx.violation("_partition_contexts(n=%d) with n_jobs=%d -> jobs=%r sizes=%r starts=%r: not an ordered exact cover with "
                              "min(n_jobs, n) non-empty chunks" % (n, n_jobs, k, sizes, starts), {"n": n, "n_jobs": n_jobs}, kind="partition_fn")
                return
    ctx.nt("D", "all n<=64 x n_jobs in -4..70")
    ctx.nt("D", "cpu_count=%d" % cpu)
    ctx.sample({"monitor": "D", "n": "1..64", "n_jobs": "-4..70 without 0", "cpu_count": cpu})


# ------------------------------------------------------------------------------------------------------ C
def run_C(rs, ctx, j):
    l, p = NP_COMBOS[j % 39]
    cfg = gen.gen_cfg(rs, l, p, labels=gen.pick(rs, ["int", "str", "float"]), n_arms=int(rs.integers(2, 5)),
                      with_probs=bool(rs.integers(3) == 0))
    nf = int(gen.pick(rs, [1, 2, 3]))
    sh = gen.Shadow(cfg, nf)
    ops = gen.gen_ops(rs, cfg, sh, 1, ["fit"], train_rows=(8, 20)) + gen.gen_ops(rs, cfg, sh, int(rs.integers(0, 3)), ["partial_fit", "add_arm"])
    if p == "clusters":
        for o in ops:
            if "X" in o:
                o["X"] = jitter(rs, o["X"])
    m = gen.build(cfg)
    gen.run_ops(m, ops)
    n = int(gen.pick(rs, [4, 5] if ctx.tier == "quick" else [4, 5, 6, 7]))
    Q = np.asarray(jitter(rs, gen.gen_contexts(rs, n, nf)) if p == "clusters" else gen.gen_contexts(rs, n, nf), dtype=float)
    if p in ("radius",) and rs.integers(2):
        Q[int(rs.integers(n))] += 50.0  # an empty neighbourhood inside the batch
    seeds = rs.integers(0, INT32, n)
    imp = m._imp
    wit = {"cfg": cfg, "ops": ops, "query": Q.tolist(), "seeds": [int(s) for s in seeds]}
    for is_predict in (False, True):
        try:
            whole = gen.canon(copy.deepcopy(imp)._predict_contexts(Q, is_predict, seeds, 0))
        except Exception as ex:  # noqa: BLE001
            ctx.violation("%s: _predict_contexts raised %s: %s" % (gen.cfg_sig(cfg), type(ex).__name__, str(ex)[:80]), wit)
            return
        for mask in range(2 ** (n - 1)):
            cuts = [0] + [i + 1 for i in range(n - 1) if mask >> i & 1] + [n]
            parts = []
            for a, b in zip(cuts, cuts[1:]):
                parts += copy.deepcopy(imp)._predict_contexts(Q[a:b], is_predict, seeds[a:b], a)
            ctx.ev()
            ctx.count("partitions_enumerated")
            d = twin.first_diff(gen.canon(parts), whole)
            if d:
                mech = None
                if is_k2(cfg):
                    one = copy.deepcopy(imp)
                    seq = []
                    for a, b in zip(cuts, cuts[1:]):
                        seq += one._predict_contexts(Q[a:b], is_predict, seeds[a:b], a)
                    if twin.first_diff(gen.canon(seq), whole) is None:
                        mech = "K2"  # only the carry-over of the bandit-level generator distinguishes the chunks
                ctx.violation("%s: rows %d partitioned at %r give a different %s than the unpartitioned batch: %s" % (
                    gen.cfg_sig(cfg), n, cuts[1:-1], "prediction" if is_predict else "expectation", d), wit, mech=mech,
                    kind="partition|" + gen.cfg_sig(cfg))
                if mech is None:
                    return
                break
            if 0 < mask:
                ctx.nt("C", gen.cfg_sig(cfg), n, is_predict, mask)
    ctx.sample({"monitor": "C", "cfg": cfg, "rows": n, "partitions": 2 ** (n - 1)})


# --------------------------------------------------------------------------------------------------- A / B
def k2_process_model(M0, op):
    """what K2 predicts for a process back-end: every worker receives a pickle of the implementor taken after the row
    seeds were drawn and runs its chunk from that same generator position"""
    imp = copy.deepcopy(M0._imp)
    X = np.asarray(op["X"], dtype=float)
    k, sizes, starts = imp._partition_contexts(len(X))
    seeds = imp.rng.randint(INT32, size=sum(sizes))
    out = []
    for i in range(k):
        out += copy.deepcopy(imp)._predict_contexts(X[starts[i]:starts[i + 1]], op["op"] == "predict", seeds[starts[i]:starts[i + 1]], starts[i])
    return gen.canon(out if len(out) > 1 else out[0])


def run_AB(rs, ctx, j, processes):
    l, p = gen.ALL_COMBOS[j % 48]
    cfg = gen.gen_cfg(rs, l, p, labels=gen.pick(rs, ["int", "str", "float"]), n_arms=int(gen.pick(rs, [2, 3, 4, 2, 3, 4, 19])),
                      with_probs=bool(rs.integers(4) == 0))  # 19 arms: more fit tasks than cpus (n_jobs=-1 -> 16 here)
    nf = int(gen.pick(rs, [1, 2, 3]))
    if processes:
        variants = [(int(gen.pick(rs, [2, 3])), gen.pick(rs, [None, "loky", "multiprocessing"]))]
        m_rows = [1, 2, 7]
    else:
        pool = [(2, "threading"), (3, "threading"), (4, "threading"), (-1, "threading"), (-2, "threading"), (64, "threading"), (5, "threading")]
        variants = [pool[int(i)] for i in rs.permutation(len(pool))[:2]]
        m_rows = [1, 2, 3, int(gen.pick(rs, [4, 5, 9, 17, 37, 70, 130, 257]))]
    ops = scenario_ops(rs, cfg, nf, m_rows)
    ref = gen.run_ops(gen.build(cfg), ops)
    for n_jobs, backend in variants:
        c2 = dict(cfg, n_jobs=n_jobs, backend=backend)
        M = gen.build(c2)
        wit = {"cfg": c2, "ops": ops}
        if processes:
            ctx.count("process_backend_cases")
        stressed = not processes and bool(rs.integers(2))
        for step, op in enumerate(ops):
            M0 = copy.deepcopy(M) if is_k2(cfg) and op["op"].startswith("predict") else None
            if stressed:
                # the GIL is handed over every microsecond: worker threads interleave inside sections that a default 5 ms
                # switch interval runs atomically
                with sched.FastSwitch():
                    out = gen.run_ops(M, [op])[0]
                ctx.count("stressed_thread_calls")
            else:
                out = gen.run_ops(M, [op])[0]
            if not op["op"].startswith("predict"):
                if out != ref[step]:
                    ctx.violation("%s n_jobs=%r backend=%r: %s -> %r, with n_jobs=1 %r" % (gen.cfg_sig(cfg), n_jobs, backend, gen.short(op), out, ref[step]),
                                  wit, kind="train|" + gen.cfg_sig(cfg))
                    return
                continue
            ctx.ev()
            d = twin.first_diff(out, ref[step])
            if d:
                mech = None
                if is_k2(cfg):
                    if backend == "threading":
                        mech = "K2"  # worker threads race on the shared bandit-level generator: not predictable, attributed by configuration
                    else:
                        try:
                            if twin.first_diff(k2_process_model(M0, op), out) is None:
                                mech = "K2"
                        except Exception:  # noqa: BLE001
                            mech = None
                ctx.violation("%s: n_jobs=%r backend=%r differs from n_jobs=1 at step %d (%s): %s" % (
                    gen.cfg_sig(cfg), n_jobs, backend, step, gen.short(op), d), wit, mech=mech,
                    kind="blackbox|%s|%s" % (gen.cfg_sig(cfg), backend))
                if mech is None:
                    return
                break  # streams have diverged: nothing after a K2 hit is comparable
            rows = 1 if op.get("X") is None else len(op["X"])
            if rows > 1 and (l in ("eg", "sm", "pop", "ts", "rnd", "lints", "lingreedy") or p != "none"):
                ctx.nt("B" if processes else "A", gen.cfg_sig(cfg), n_jobs, backend, rows)
    ctx.sample({"monitor": "B" if processes else "A", "cfg": cfg, "variants": variants, "ops": [gen.short(o) for o in ops]})


# ------------------------------------------------------------------------------------------------------ G
def _g_child(conn, cfg, ops):
    """runs inside a multiprocessing child (the application itself may be a pool worker of its caller)"""
    try:
        ref = gen.run_ops(gen.build(cfg), ops)
        M = gen.build(dict(cfg, n_jobs=int(cfg["_g_jobs"]), backend="threading"))
        with sched.FastSwitch():
            out = gen.run_ops(M, ops)
        conn.send({"ref": ref, "out": out, "in_child": mp.parent_process() is not None})
    except BaseException as ex:  # noqa: BLE001
        conn.send({"error": "%s: %s" % (type(ex).__name__, str(ex)[:200])})
    finally:
        conn.close()


def run_G(rs, ctx, j):
    """the same comparison as monitor A (threads vs n_jobs=1, switch-interval stress), executed inside a spawned
    multiprocessing child: what the library does must not depend on whether its caller is itself a worker process"""
    l, p = gen.ALL_COMBOS[(j * 7 + ctx.index // TOTAL * 5) % 48]
    cfg = gen.gen_cfg(rs, l, p, labels=gen.pick(rs, ["int", "str", "float"]), n_arms=int(gen.pick(rs, [2, 3, 4])),
                      with_probs=bool(rs.integers(4) == 0))
    cfg["_g_jobs"] = int(gen.pick(rs, [2, 3, 4]))
    nf = int(gen.pick(rs, [1, 2, 3]))
    ops = scenario_ops(rs, cfg, nf, [1, 3, int(gen.pick(rs, [9, 17, 40]))])
    wit = {"cfg": cfg, "ops": ops, "where": "spawned multiprocessing child, threads, switch interval 1e-6"}
    c = mp.get_context("spawn")  # a fresh interpreter: no lock or helper thread of this worker process is inherited
    parent, child = c.Pipe(duplex=False)
    pr = c.Process(target=_g_child, args=(child, cfg, ops))
    pr.start()
    child.close()
    res = parent.recv() if parent.poll(900) else None
    pr.join(10)
    if pr.is_alive():
        pr.kill()
    if res is None or "error" in res:
        ctx.count("mp_child_failed")
        return
    ctx.count("mp_child_runs")
    if not res["in_child"]:
        ctx.count("mp_child_not_a_child")
        return
    for step, (op, a, b) in enumerate(zip(ops, res["out"], res["ref"])):
        if not op["op"].startswith("predict"):
            continue
        ctx.ev()
        d = twin.first_diff(a, b)
        if d:
            ctx.violation("%s inside a multiprocessing child: n_jobs=%d backend='threading' differs from n_jobs=1 at step %d (%s): %s" % (
                gen.cfg_sig(cfg), cfg["_g_jobs"], step, gen.short(op), d), wit, mech="K2" if is_k2(cfg) else None,
                kind="mp_child|%s" % gen.cfg_sig(cfg))
            return
        if op.get("X") is not None and len(op["X"]) > 1:
            ctx.nt("G", gen.cfg_sig(cfg), cfg["_g_jobs"], len(op["X"]))
    ctx.sample({"monitor": "G", "cfg": cfg, "ops": [gen.short(o) for o in ops]})


# ------------------------------------------------------------------------------------------------------ E
E_COMBOS = [(l, "none") for l in ("eg", "ucb", "sm", "ts", "pop", "lingreedy", "lints", "linucb")] + \
           [("eg", "tree"), ("ucb", "tree"), ("ts", "tree"), ("eg", "lsh"), ("ucb", "lsh"), ("lingreedy", "lsh")]


def run_E(rs, ctx, j):
    l, p = E_COMBOS[j % len(E_COMBOS)]
    n_arms = int(rs.integers(3, 7))
    cfg = gen.gen_cfg(rs, l, p, labels=gen.pick(rs, ["int", "str", "float"]), n_arms=n_arms, deterministic=True)
    if p == "lsh":
        cfg["np"].update(n_dimensions=int(gen.pick(rs, [2, 3, 4])), n_tables=int(gen.pick(rs, [2, 3])))
    nf = int(gen.pick(rs, [2, 3]))
    sh = gen.Shadow(cfg, nf)
    train = gen.gen_ops(rs, cfg, sh, 1, ["fit"], train_rows=(12, 30)) + gen.gen_ops(rs, cfg, sh, 2, ["partial_fit"], train_rows=(4, 12))
    cont = gen.gen_ops(rs, cfg, copy.deepcopy(sh), 2, ["predict_expectations", "predict"]) + gen.gen_continuation(rs, cfg, sh, n_ops=2)
    R = gen.build(cfg)
    gen.run_ops(R, train)
    ref = gen.run_ops(copy.deepcopy(R), cont)
    runs = 4 if ctx.tier == "quick" else 6
    wit = {"cfg": cfg, "train": train, "continuation": cont}
    for r in range(runs):
        nj = int(gen.pick(rs, [n_arms, n_arms, 2, 3, 64]))
        M = gen.build(dict(cfg, n_jobs=nj, backend="threading"))
        with sched.YieldInjector(seed=int(rs.integers(2 ** 31))) as inj:
            out = gen.run_ops(M, train)
        sig, overlap, n_threads = inj.interleaving()
        ctx.count("thread_runs")
        ctx.count("injected_yields", inj.yields)
        ctx.count("monitored_line_events", inj.lines)
        if overlap:
            ctx.count("overlapping_interleavings")
        if any(isinstance(o, list) and o and o[0] == "EXC" for o in out):
            ctx.violation("%s: training under yield-injected threads (n_jobs=%d) raised %r" % (gen.cfg_sig(cfg), nj, out), wit, kind="sched_raise")
            return
        # training consumes no randomness except LSH planes (drawn before the tasks): same position as the reference.
        # The continuation judges the trained *model*, so it is run single-threaded (prediction schedules are monitor A's job)
        M.n_jobs = M._imp.n_jobs = 1
        got = gen.run_ops(M, cont)
        ctx.ev()
        d = twin.first_diff(got, ref)
        if d:
            ctx.violation("%s: model trained by %d threads under interleaving [%s] differs from n_jobs=1: %s" % (
                gen.cfg_sig(cfg), nj, sig[:120], d), dict(wit, interleaving=sig), kind="sched|" + gen.cfg_sig(cfg))
            return
        if overlap:
            ctx.nt("E", gen.cfg_sig(cfg), sig)
    ctx.sample({"monitor": "E", "cfg": cfg, "last_interleaving": sig[:200], "threads": n_threads})


# ------------------------------------------------------------------------------------------------------ F
def run_F(rs, ctx, j):
    l, p = E_COMBOS[j % len(E_COMBOS)]
    n_arms = int(gen.pick(rs, [2, 3, 4, 4, 5]))
    cfg = gen.gen_cfg(rs, l, p, labels=gen.pick(rs, ["int", "str", "float"]), n_arms=n_arms, deterministic=True)
    if p == "lsh":
        cfg["np"].update(n_dimensions=2, n_tables=int(gen.pick(rs, [1, 2])))
    nf = 2
    sh = gen.Shadow(cfg, nf)
    train = gen.gen_ops(rs, cfg, sh, 1, ["fit"], train_rows=(10, 20)) + gen.gen_ops(rs, cfg, sh, 1, ["partial_fit"], train_rows=(4, 10))
    cont = gen.gen_ops(rs, cfg, copy.deepcopy(sh), 2, ["predict_expectations", "predict"]) + gen.gen_continuation(rs, cfg, sh, n_ops=2)
    R = gen.build(cfg)
    gen.run_ops(R, train)
    ref = gen.run_ops(copy.deepcopy(R), cont)
    wit = {"cfg": cfg, "train": train}
    perms = list(itertools.permutations(range(n_arms))) if n_arms <= 4 else None
    n_orders = len(perms) if perms else 24
    for t in range(n_orders):
        if perms:
            base = perms[t]

            def chooser(n, call_index, base=base):
                if n == len(base):
                    return base
                r2 = np.random.default_rng([t, call_index, n])
                return [int(i) for i in r2.permutation(n)]
        else:
            def chooser(n, call_index, t=t):
                r2 = np.random.default_rng([t, call_index, n])
                return [int(i) for i in r2.permutation(n)]
        M = gen.build(dict(cfg, n_jobs=n_arms, backend="threading"))
        with sched.ordered(chooser) as ex:
            out = gen.run_ops(M, train)
            calls = list(ex.calls)
        ctx.count("task_orders")
        if any(isinstance(o, list) and o and o[0] == "EXC" for o in out):
            ctx.violation("%s: training with task order %r raised %r" % (gen.cfg_sig(cfg), t, out), wit, kind="order_raise")
            return
        for c in calls:
            if not c["sharedmem"]:
                continue
            ctx.ev()
            bad, n_w = sched.write_conflicts(c)
            ctx.count("recorded_task_writes", n_w)
            if bad:
                ctx.violation("%s: shared-memory tasks of %s are not independent: %s tasks %d and %d on keys %r" % (
                    gen.cfg_sig(cfg), c["fn"], bad[0][0], bad[0][1], bad[0][2], bad[0][3]), wit, kind="write_set|" + gen.cfg_sig(cfg))
                return
        M.n_jobs = M._imp.n_jobs = 1  # judge the trained model only
        got = gen.run_ops(M, cont)
        ctx.ev()
        d = twin.first_diff(got, ref)
        if d:
            ctx.violation("%s: model depends on the completion order of the fit tasks (order #%d %r): %s" % (
                gen.cfg_sig(cfg), t, [c["order"] for c in calls][:3], d), wit, kind="order|" + gen.cfg_sig(cfg))
            return
        if any(c["order"] != sorted(c["order"]) for c in calls):
            ctx.nt("F", gen.cfg_sig(cfg), n_arms, t)
    ctx.sample({"monitor": "F", "cfg": cfg, "orders": n_orders, "exhaustive": bool(perms)})


def run_case(rs, ctx):
    j = ctx.index % TOTAL
    for name in ORDER:
        if j < BLOCK[name]:
            break
        j -= BLOCK[name]
    rep = ctx.index // TOTAL
    if name == "D":
        return run_D(rs, ctx) if rep == 0 else None
    if name == "C":
        return run_C(rs, ctx, j)
    if name == "A":
        return run_AB(rs, ctx, j, False)
    if name == "B":
        return run_AB(rs, ctx, j * 4 + rep, True)
    if name == "E":
        return run_E(rs, ctx, j)
    if name == "G":
        return run_G(rs, ctx, j)
    return run_F(rs, ctx, j)
