"""C06 - incremental training equals batch training (twin monitor).

Two bandits with identical constructor arguments; A gets fit(all rows), B gets fit(prefix) + partial_fit on
every consecutive chunk; no query in between (so both are at the same random-stream position by construction;
the generator signatures are compared and a difference is counted as a diagnostic).  Then the same query
stream is put to both and compared bit-for-bit (count/sum and neighbourhood policies on exactly summable
data) or within 1e-8 (1+|v|) (linear policies).

As built: A third of the LinGreedy / LinUCB cases without neighbourhood policy run unregularised (l2_lambda = 0, contexts in general position).
"""
from mon import env  # noqa: F401
import numpy as np

from mon import gen, rngs, twin

ID = "C06"
LEVEL = "exploration"
TECHNIQUE = "runtime twin monitor: batch-trained vs chunk-trained bandit, generator-position check, bit-exact / tolerance comparison of query streams"
RULE = ("45 policy combinations (TreeBandit and scale=True excluded by the property) x random splits of n<=30 rows into "
        "1-8 consecutive chunks incl. single-row chunks and chunks omitting arms; dyadic rewards, integer-grid contexts; "
        "non-trivial = >=2 chunks with a chunk omitting an arm observed before; distinct = (combo, chunk sizes, omitted pattern)")
BUDGET = {"quick": {"cases": 45 * 24, "shards": 16}, "thorough": {"cases": 45 * 600, "shards": 16, "wall_s": 3600}}
MIN = {"quick": {"evaluations": 300, "nontrivial": 100}, "thorough": {"evaluations": 10000, "nontrivial": 3000}}
ASSUMPTIONS = ["exactly summable training data (dyadic rewards, small-integer contexts) where bit-for-bit is demanded",
               "KNearest k <= rows of the complete history; Clusters prefix has >= n_clusters distinct rows",
               "linear policies: expectations within 1e-8 (1+|v|), 1e-5 (1+|v|) with 16 or more features (condition numbers of 1e6-1e7); predicted arms compared except on near-ties"]

COMBOS = [c for c in gen.ALL_COMBOS if c[1] != "tree"]


def run_case(rs, ctx):
    l, p = COMBOS[ctx.index % len(COMBOS)]
    cfg = gen.gen_cfg(rs, l, p, labels=gen.pick(rs, ["int", "str", "float"]), n_arms=int(rs.integers(2, 5)))
    if "scale" in cfg["lp"]:
        cfg["lp"]["scale"] = False  # running standardisation: excluded by the property
    nf = int(gen.pick(rs, [1, 2, 3]))
    if gen.is_linear(cfg) and rs.integers(4) == 0:
        nf = int(gen.pick(rs, [16, 17, 33, 64]))  # wide contexts: far more features than rows in a chunk
    n = int(rs.integers(max(8, gen.min_rows(cfg) + 3), 31))
    data = gen.gen_batch(rs, cfg, cfg["arms"], n, nf, distinct_rows=6)
    # choose chunk boundaries: prefix large enough for the policy, then 0-7 further cuts
    lo = max(gen.min_rows(cfg) + (2 if p == "clusters" else 0), 1)
    n_chunks = int(rs.integers(1, 9))
    cuts = sorted(set(int(c) for c in rs.integers(lo, n, n_chunks - 1))) if n_chunks > 1 and lo < n else []
    if cuts and rs.integers(2):
        cuts = sorted(set(cuts + [min(n - 1, cuts[-1] + 1)]))  # force a single-row chunk
    bounds = [0] + cuts + [n]
    if p == "clusters":
        X0 = data["X"][:bounds[1]]
        if len({tuple(x) for x in X0}) < cfg["np"]["n_clusters"]:
            ctx.count("skipped_prefix_too_few_distinct_rows")
            return
    # make some chunk omit an arm that was observed before
    if len(bounds) > 2 and rs.integers(3) > 0:
        j = int(rs.integers(1, len(bounds) - 1))
        seen = set(data["d"][:bounds[j]])
        if seen:
            victim = gen.pick(rs, sorted(seen, key=repr))
            others = [a for a in cfg["arms"] if a != victim]
            for i in range(bounds[j], bounds[j + 1]):
                if data["d"][i] == victim:
                    data["d"][i] = gen.pick(rs, others)
    # sometimes an arm is absent from the prefix altogether: its first observations then arrive through partial_fit
    if len(bounds) > 2 and len(cfg["arms"]) > 2 and rs.integers(3) == 0:
        late = gen.pick(rs, cfg["arms"])
        others = [a for a in cfg["arms"] if a != late]
        for i in range(0, bounds[1]):
            if data["d"][i] == late:
                data["d"][i] = gen.pick(rs, others)
    if data["X"] is not None and len(bounds) > 2 and rs.integers(4) == 0:
        # the rows after the prefix leave the prefix's value range (negative coordinates)
        for i in range(bounds[1], n):
            data["X"][i] = [v - 3.0 for v in data["X"][i]]
    if l in ("lingreedy", "linucb") and p == "none" and rs.integers(3) == 0:
        # no regularisation at all (l2_lambda = 0 is accepted by LinGreedy and LinUCB): contexts in general position, two arms,
        # every arm with more rows than features in the prefix, so every normal matrix is regular
        cfg["lp"]["l2"] = 0.0
        cfg["arms"] = cfg["arms"][:2]
        nf = int(gen.pick(rs, [1, 2, 3]))
        n = int(rs.integers(20, 31))
        data = {"d": [cfg["arms"][i % 2] for i in range(n)], "r": gen.gen_rewards(rs, n, "dyadic"),
                "X": [[float(v) for v in row] for row in rs.normal(0, 2, (n, nf))]}
        cuts = sorted(set(int(c) for c in rs.integers(12, n, int(rs.integers(1, 4)))))
        bounds = [0] + cuts + [n]
        ctx.count("unregularised_linear_cases")
    chunks = [gen.slice_batch(data, bounds[i], bounds[i + 1]) for i in range(len(bounds) - 1)]
    if data["X"] is not None and rs.integers(2):
        # every call may bring its contexts in another container / dtype (same values)
        for c in chunks:
            c["x_enc"] = gen.pick_enc(rs, cfg, p=2)
        if rs.integers(2):
            chunks[0]["x_enc"] = "narrow"
        data["x_enc"] = gen.pick_enc(rs, cfg, p=2)
        ctx.count("mixed_container_histories")
    A, B = gen.build(cfg), gen.build(cfg)
    wit = {"cfg": cfg, "data": data, "chunk_bounds": bounds}
    # binary rewards may legally arrive as a boolean array
    rd = "bool" if l == "ts" and rs.integers(3) == 0 else None
    wit["reward_dtype"] = rd or "float"
    try:
        gen.apply_op(A, dict(data, op="fit", r_dtype=rd))
        gen.apply_op(B, dict(chunks[0], op="fit", r_dtype=rd))
        for c in chunks[1:]:
            gen.apply_op(B, dict(c, op="partial_fit", r_dtype=rd))
    except Exception as ex:  # noqa: BLE001
        ctx.violation("training raised %s: %s" % (type(ex).__name__, str(ex)[:100]), wit)
        return
    if rngs.signature(A) != rngs.signature(B):
        # diagnostic only: the sharing pattern of generator copies held by linear arm models may legitimately differ
        # (harmless unless the models draw from them); behaviour below is what decides
        ctx.count("generator_signature_differs_after_training")
    ctxual = gen.is_ctx(cfg)
    tol = twin.fit_tol(cfg)
    if gen.is_linear(cfg) and nf >= 16:
        # more features than rows and a small penalty: the normal matrix has a condition number around 1e6-1e7, the inverse
        # (and the Cholesky factor LinTS draws through) differs between batch and chunked accumulation by that much rounding
        tol = 1e-5
    for rnd in range(2):
        m1, m2 = int(gen.pick(rs, [1, 2, 3, 5])), int(gen.pick(rs, [1, 2, 4]))
        if ctxual:
            Q1, Q2 = gen.gen_contexts(rs, m1, nf), gen.gen_contexts(rs, m2, nf)
            if rs.integers(2):
                Q2[0] = list(data["X"][int(rs.integers(n))])  # a stored row as query
        else:
            Q1 = None if rs.integers(2) else gen.gen_contexts(rs, m1, 2)
            Q2 = None if rs.integers(2) else gen.gen_contexts(rs, m2, 2)
        a, b = twin.query_block(A, Q1, Q2), twin.query_block(B, Q1, Q2)
        ctx.ev()
        d = twin.compare_blocks(a, b, tol)
        if d:
            wit["queries"] = [Q1, Q2]
            ctx.violation("%s: batch-trained and chunk-trained bandits disagree (%d chunks): %s" % (gen.cfg_sig(cfg), len(chunks), d), wit)
            return
    omitted = any(set(data["d"][:bounds[j]]) - set(c["d"]) for j, c in enumerate(chunks) if j > 0)
    if len(chunks) >= 2 and omitted:
        ctx.nt(gen.cfg_sig(cfg), [len(c["d"]) for c in chunks], nf)
    ctx.sample({"cfg": cfg, "n_rows": n, "chunk_sizes": [len(c["d"]) for c in chunks]})
