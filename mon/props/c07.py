"""C07 - fit discards everything learned before (twin monitor).

A bandit with an arbitrary prior life (training, arm changes, warm start, queries) and a freshly constructed
bandit with the same configuration *and seed* and the old bandit's current arm list are both given fit(D)
from the same random-stream position (all generator objects grafted, aliasing preserved); a seeded
continuation is then run on both and the full output streams are compared bit-for-bit, plus cold_arms.

As built: Extra scenario: the caller re-uses its training arrays (overwrites them in place with D, same shape) and calls fit again; prior histories often end with add_arm + warm_start; D omits one or two arms in half of the cases; the feature count may change across fit(D) in both directions (1 <-> k); queries arrive in the history's habitual container (Series, DataFrame, narrow ints, ...). An empty D (for the policies that accept one) in 1/8 of those cases. The re-used caller buffer may be an int64 / int16 / uint8 / float32 array.
"""
from mon import env  # noqa: F401
import copy

from mon import gen, rngs, twin

ID = "C07"
LEVEL = "exploration"
TECHNIQUE = "runtime twin monitor: re-fitted bandit vs fresh bandit fit on the same data from grafted generator positions; bit-exact continuation comparison"
RULE = ("48 policy combinations x prior histories of 3-12 ops (fit, partial_fit, add/remove arm, warm_start, queries) x new "
        "data D smaller/larger/with another feature count (1,2,3,5); non-trivial = |D| < rows held before, or other feature "
        "count, or prior warm start / arm change; distinct = (combo, prior skeleton, |D|, feature counts)")
BUDGET = {"quick": {"cases": 48 * 15, "shards": 16}, "thorough": {"cases": 48 * 300, "shards": 16, "wall_s": 3600}}
MIN = {"quick": {"evaluations": 600, "nontrivial": 300}, "thorough": {"evaluations": 12000, "nontrivial": 5000}}
ASSUMPTIONS = ["the fresh twin is constructed with the same seed (k-means / trees take random_state from the seed value)",
               "'same random-stream position' = every generator object reachable from the bandit, grafted before and after fit(D)"]

PRIOR = ["fit", "partial_fit", "partial_fit", "add_arm", "remove_arm", "warm_start", "predict", "predict_expectations"]


def run_buffer_reuse(rs, ctx, l, p):
    """the caller keeps pre-allocated arrays and overwrites them in place with the next data set before calling fit again:
    a legal way to present 'new data D', and the one in which the stored history aliases the caller's buffers"""
    import numpy as np
    cfg = gen.gen_cfg(rs, l, p, labels=gen.pick(rs, ["int", "str", "float"]), n_arms=int(rs.integers(2, 5)))
    nf = int(gen.pick(rs, [2, 3]))
    n = int(rs.integers(max(10, gen.min_rows(cfg) + 4), 25))
    D0 = gen.gen_batch(rs, cfg, cfg["arms"], n, nf, distinct_rows=6)
    D1 = gen.gen_batch(rs, cfg, cfg["arms"], n, nf, distinct_rows=6)
    # the decisions buffer must be wide enough for every label of both data sets (fixed-width numpy strings)
    bd, br = np.asarray(D0["d"], dtype=np.asarray(list(D0["d"]) + list(D1["d"])).dtype), np.asarray(D0["r"], dtype=float)
    # the pre-allocated context buffer may be an integer or single-precision array (the grid values fit)
    bdt = gen.pick(rs, [float, float, np.int64, np.float32, np.int16, np.uint8])
    bX = np.ascontiguousarray(np.asarray(D0["X"], dtype=float).astype(bdt)) if D0["X"] is not None else None
    M = gen.build(cfg)
    sh = gen.Shadow(cfg, nf)
    sh.fitted, sh.rows = True, n
    q = gen.gen_ops(rs, cfg, sh, 2, ["predict", "predict_expectations"])
    wit = {"cfg": cfg, "mode": "buffer_reuse", "D0": D0, "D1": D1, "queries": q}
    try:
        M.fit(bd, br, bX) if bX is not None else M.fit(bd, br)
        gen.run_ops(M, q)
        bd[:] = np.asarray(D1["d"])
        br[:] = np.asarray(D1["r"], dtype=float)
        if bX is not None:
            bX[:] = np.asarray(D1["X"], dtype=float).astype(bX.dtype)
        F = gen.build(cfg)
        rngs.graft(M, F)
        M.fit(bd, br, bX) if bX is not None else M.fit(bd, br)
        F.fit(np.asarray(D1["d"]), np.asarray(D1["r"], dtype=float), np.asarray(D1["X"], dtype=float).astype(bX.dtype)) if bX is not None \
            else gen.apply_op(F, dict(D1, op="fit"))
    except Exception as ex:  # noqa: BLE001
        ctx.violation("%s: refit from re-used buffers raised %s: %s" % (gen.cfg_sig(cfg), type(ex).__name__, str(ex)[:80]), wit)
        return
    rngs.graft(M, F)
    cont = [{"op": "cold_arms"}] + gen.gen_ops(rs, cfg, copy.deepcopy(sh), 2, ["predict_expectations", "predict"]) + \
        gen.gen_continuation(rs, cfg, sh)
    wit["continuation"] = cont
    ctx.ev(2)
    d = twin.first_diff(gen.run_ops(M, cont), gen.run_ops(F, cont))
    if d:
        ctx.violation("%s: bandit re-fitted from the caller's re-used (overwritten) arrays differs from a fresh bandit fit on the same "
                      "data: %s" % (gen.cfg_sig(cfg), d), wit, kind="buffer_reuse|" + gen.cfg_sig(cfg))
        return
    ctx.count("buffer_reuse_cases")
    ctx.nt(gen.cfg_sig(cfg), "buffer_reuse", n, nf)
    ctx.sample({"cfg": cfg, "mode": "buffer_reuse: fit(buffers), queries, overwrite buffers in place, fit(buffers)", "rows": n})


def run_case(rs, ctx):
    l, p = gen.ALL_COMBOS[ctx.index % 48]
    if (ctx.index // 48) % 5 == 3:
        return run_buffer_reuse(rs, ctx, l, p)
    cfg = gen.gen_cfg(rs, l, p, labels=gen.pick(rs, ["int", "str", "float"]), n_arms=int(rs.integers(2, 5)),
                      with_probs=bool(rs.integers(4) == 0))
    nf0 = int(gen.pick(rs, [1, 2, 3]))
    sh = gen.Shadow(cfg, nf0)
    sh.vary_nf = True
    prior = gen.gen_ops(rs, cfg, sh, 1, ["fit"], train_rows=(6, 30)) + \
        gen.gen_ops(rs, cfg, sh, int(rs.integers(2, 12)), PRIOR, train_rows=(1, 8))
    if p == "none" and l != "rnd" and not gen.has_probs(cfg) and rs.integers(2):
        # leave a warm-started, never observed arm behind: the one kind of learned state that is neither "trained" nor "cold"
        prior += gen.gen_ops(rs, cfg, sh, 1, ["add_arm"])
        if sh.fitted and len(sh.arms) >= 2:
            prior.append(gen.gen_warm(rs, sh.arms, q=1.0))
    rows_before = sh.rows
    M = gen.build(cfg)
    out = gen.run_ops(M, prior)
    if any(isinstance(o, list) and o and o[0] == "EXC" for o in out):
        # a documented-domain prior history must not raise; not C07's business to judge which property broke
        ctx.count("prior_history_raised")
    nf1 = int(gen.pick(rs, [nf0, nf0, 1, 1, 2, 3, 5])) if gen.is_ctx(cfg) else nf0
    sh.nf = nf1
    nD = int(gen.pick(rs, [max(gen.min_rows(cfg), 2), 5, 12, 40]))
    nD = max(nD, gen.min_rows(cfg))
    if p in ("none", "radius", "knn", "tree") and rs.integers(8) == 0:
        nD = 0  # an empty data set (a filter that matched nothing) is a legal D for these policies: everything goes back to neutral
        ctx.count("empty_D")
    # D need not mention every arm: arms without rows in D must come out of fit(D) exactly as a fresh bandit's would
    omit = None
    if len(sh.arms) > 1 and rs.integers(2):
        omit = [sh.arms[-1]] if rs.integers(2) else [gen.pick(rs, sh.arms)]
        if len(sh.arms) > 2 and rs.integers(3) == 0:
            omit.append(gen.pick(rs, sh.arms))
        if len(set(omit)) >= len(sh.arms):
            omit = omit[:1]
    D = gen.gen_batch(rs, cfg, sh.arms, nD, nf1, distinct_rows=4, omit=omit)
    fit_op = dict(D, op="fit", nf=nf1)
    cfgF = dict(cfg, arms=list(sh.arms))
    F = gen.build(cfgF)
    wit = {"cfg": cfg, "prior": prior, "fit": fit_op}
    if list(M.arms) != list(sh.arms):
        ctx.violation("arm list %r after prior history differs from the recorded arm changes %r" % (M.arms, sh.arms), wit)
        return
    rngs.graft(M, F)
    rM, rF = gen.run_ops(M, [fit_op]), gen.run_ops(F, [fit_op])
    ctx.ev()
    if rM != rF:
        ctx.violation("%s: fit(D) -> %r on the used bandit but %r on a fresh one" % (gen.cfg_sig(cfg), rM, rF), wit)
        return
    rngs.graft(M, F)
    sh.fitted, sh.rows = True, nD
    cont = [{"op": "cold_arms"}] + gen.gen_ops(rs, cfg, copy.deepcopy(sh), 2, ["predict_expectations", "predict"]) + \
        gen.gen_continuation(rs, cfg, sh)
    wit["continuation"] = cont
    oM, oF = gen.run_ops(M, cont), gen.run_ops(F, cont)
    ctx.ev()
    d = twin.first_diff(oM, oF)
    if d:
        k = int(d.split("]")[0].split("[")[1]) if d.startswith("[") else -1
        ctx.violation("%s: re-fitted bandit differs from fresh bandit fit on the same data at continuation step %s (%s): %s" % (
            gen.cfg_sig(cfg), k, gen.short(cont[k]) if 0 <= k < len(cont) else "?", d), wit)
        return
    kinds = [o["op"] for o in prior]
    feats = []
    if nD < rows_before:
        feats.append("smaller")
    if nf1 != nf0:
        feats.append("nf%d->%d" % (nf0, nf1))
    if "warm_start" in kinds and p == "none":
        feats.append("warm")
    if "add_arm" in kinds or "remove_arm" in kinds:
        feats.append("armchange")
    if omit:
        feats.append("D_omits_arms")
    if feats:
        ctx.nt(gen.cfg_sig(cfg), "".join(k[0] for k in kinds), nD, ",".join(feats))
    ctx.sample({"cfg": cfg, "prior": [gen.short(o) for o in prior], "D_rows": nD, "nf": [nf0, nf1],
                "continuation": [gen.short(o) for o in cont]})
