"""C08 - outputs always range over exactly the current arms, one result per context (always-on contract).

The deciding monitor is mon.contracts: post-conditions attached (icontract) to MAB.predict and
MAB.predict_expectations, evaluated on every call made by this dedicated workload (and, as side alarms, by
every other check's workload).  This module adds the arm-list shadow: after every recorded add_arm /
remove_arm event the bandit's arm list must equal the list derived from the events alone.

As built: Workload extras: bandits with a single arm (built so or shrunk by remove_arm), 17-19 arms, query batches up to 130 rows and one batch of 32769-72768 rows. A third of the Radius / LSHNearest cases configure no_nhood_prob_of_arm and change arms nevertheless (known finding K6 is what the unchanged tree does then).
"""
from mon import env  # noqa: F401

from mon import gen

ID = "C08"
LEVEL = "exploration"
TECHNIQUE = "runtime contracts (icontract post-conditions on MAB.predict / predict_expectations) + shadow arm list maintained from recorded add_arm/remove_arm events"
RULE = ("48 policy combinations x int/str/float labels x n_jobs in {1,3} x histories of 8-20 ops interleaving add_arm, "
        "remove_arm (incl. before the first fit and re-adding a removed label), fit, partial_fit, warm_start with predict / "
        "predict_expectations on m in {none,1,2,3,5,8} rows; non-trivial = history with >=1 add and >=1 remove each followed "
        "by a query; distinct = (combo, labels, n_jobs, op skeleton)")
BUDGET = {"quick": {"cases": 48 * 8, "shards": 16}, "thorough": {"cases": 48 * 104, "shards": 16, "wall_s": 3600}}
MIN = {"quick": {"evaluations": 1000, "nontrivial": 60, "counters": {"c08_predict": 400, "c08_expectations": 400}},
       "thorough": {"evaluations": 15000, "nontrivial": 1000, "counters": {"c08_predict": 5000, "c08_expectations": 5000}}}
ASSUMPTIONS = ["homogeneous arm labels (numpy coerces mixed lists before the library sees them)",
               "no_nhood_prob_of_arm only with a fixed arm set"]

KINDS = ["add_arm", "remove_arm", "add_arm", "remove_arm", "fit", "partial_fit", "partial_fit", "warm_start",
         "predict", "predict_expectations", "predict", "predict_expectations"]


def run_case(rs, ctx):
    l, p = gen.ALL_COMBOS[ctx.index % 48]
    labels = ["int", "str", "float", "mixnum"][(ctx.index // 48) % 4]
    n_jobs = 3 if (ctx.index // 192) % 2 else 1
    backend = "threading" if n_jobs > 1 and (ctx.tier == "quick" or rs.integers(16)) else None  # None -> loky processes (slow)
    cfg = gen.gen_cfg(rs, l, p, labels=labels, n_arms=int(gen.pick(rs, [1, 2, 3, 4, 2, 3, 4, 17])), n_jobs=n_jobs, backend=backend)
    cfg["min_arms"] = 1  # a bandit may shrink to (or start with) a single arm
    if p in ("radius", "lsh") and rs.integers(3) == 0 and len(cfg["arms"]) >= 2:
        # an empty-neighbourhood distribution is configured and the arms change nevertheless (known finding K6 describes what
        # the unchanged library does then when a row without neighbours is predicted)
        kk = int(rs.integers(1, len(cfg["arms"])))
        probs = [0.0] * len(cfg["arms"])
        for i_ in rs.permutation(len(cfg["arms"]))[:kk]:
            probs[int(i_)] = 1.0 / kk
        cfg["np"]["probs"] = probs
        cfg["arm_changes_despite_probs"] = True
        ctx.count("probs_with_arm_changes_cases")
    nf = int(gen.pick(rs, [1, 2, 3]))
    sh = gen.Shadow(cfg, nf)
    sh.vary_nf = True
    ops = gen.gen_ops(rs, cfg, sh, int(rs.integers(0, 4)), ["add_arm", "remove_arm"]) + \
        gen.gen_ops(rs, cfg, sh, 1, ["fit"], train_rows=(4, 16)) + \
        gen.gen_ops(rs, cfg, sh, int(rs.integers(8, 21)), KINDS, train_rows=(1, 8),
                    sizes=(1, 2, 3, 5, 8) if rs.integers(4) else (1, 2, 17, 33, 70, 130))
    if ctx.index % 96 in (4, 52) and p == "clusters" and l in ("eg", "ucb", "rnd", "sm", "pop", "ts"):
        # one very long batch (more rows than any internal per-task limit): every row must come back, in order
        ops.append({"op": "predict", "X": gen.gen_contexts(rs, 32768 + int(rs.integers(1, 40000)), sh.nf)})
        ctx.count("very_long_queries")
    m = gen.build(cfg)
    arms = list(cfg["arms"])
    added_then_q = removed_then_q = False
    pend_add = pend_rem = False
    for step, op in enumerate(ops):
        k = op["op"]
        wit = {"cfg": cfg, "ops": ops[:step + 1]}
        try:
            gen.apply_op(m, op)
        except Exception as ex:  # noqa: BLE001
            if gen.k6_applies(m, op, ex):
                ctx.violation("%s: %s raised %s: %s" % (gen.cfg_sig(cfg), gen.short(op), type(ex).__name__, str(ex)[:80]), wit, mech="K6")
                continue  # known finding K6; the rejected query changed nothing, the history goes on
            if gen.k5_applies(m, op, type(ex).__name__):
                ctx.violation("%s: %s raised %s: %s" % (gen.cfg_sig(cfg), gen.short(op), type(ex).__name__, str(ex)[:80]), wit, mech="K5")
                continue  # known finding K5; the rejected query changed nothing, the history goes on
            ctx.violation("%s: %s raised %s: %s" % (gen.cfg_sig(cfg), gen.short(op), type(ex).__name__, str(ex)[:80]), wit)
            return
        if k == "add_arm":
            arms.append(op["arm"])
            pend_add = True
        elif k == "remove_arm":
            arms.remove(op["arm"])
            pend_rem = True
        elif k in ("predict", "predict_expectations"):
            ctx.ev()
            added_then_q |= pend_add
            removed_then_q |= pend_rem
        if k in ("add_arm", "remove_arm"):
            ctx.ev()
            if list(m.arms) != arms or [type(a) for a in m.arms] != [type(a) for a in arms]:
                ctx.violation("%s: after %s the arm list is %r, the recorded arm events give %r" % (
                    gen.cfg_sig(cfg), gen.short(op), m.arms, arms), wit)
                return
    if added_then_q and removed_then_q:
        ctx.nt(gen.cfg_sig(cfg), labels, n_jobs, "".join(o["op"][0] for o in ops))
    ctx.sample({"cfg": cfg, "ops": [gen.short(o) for o in ops]})


def classify_alarm(alarm):
    return None
