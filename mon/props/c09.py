"""C09 - predict returns the first arm attaining the maximum of the expectations (twin monitor).

At every query point of a seeded history two deep copies of the bandit (same model, same random-stream
position, generator aliasing preserved by deepcopy) are asked predict(X) and predict_expectations(X); an
online checker compares row by row.  Ties are provoked (binary / few-valued rewards, unobserved arms).

As built: The live bandit answers queries too (whatever a real query leaves behind is part of the state of the next twin check); a predict -> warm_start -> predict scenario in which the arg-max changes; near-tie rewards (means differing in the 10th digit); one query of 131073-262144 rows in a quarter of the cases without neighbourhood policy. The UCB1 variant of the warm-start scenario uses rewards <= -8 so that the arg-max certainly changes.
"""
from mon import env  # noqa: F401
import copy
import math

import numpy as np

from mon import gen

ID = "C09"
LEVEL = "exploration"
TECHNIQUE = "runtime twin monitor: predict on one deep copy vs first-arg-max of predict_expectations on another, row by row"
RULE = ("47 policy combinations (TreeBandit+EpsilonGreedy(eps>0) excluded by the property) x histories with arm changes, "
        "warm start and partial_fit x query batches of 1-8 rows incl. far-away rows (empty neighbourhoods); non-trivial = a "
        "row with an exact tie for the maximum or an empty neighbourhood; distinct = (combo, row feature, history skeleton)")
BUDGET = {"quick": {"cases": 48 * 16, "shards": 16}, "thorough": {"cases": 48 * 300, "shards": 16, "wall_s": 3600}}
MIN = {"quick": {"evaluations": 1500, "nontrivial": 60, "counters": {"huge_queries": 10}},
       "thorough": {"evaluations": 50000, "nontrivial": 1500, "counters": {"huge_queries": 300}}}
ASSUMPTIONS = ["NaN rows are judged only as the property states: all expectations NaN and the arm inside the support of the "
               "configured empty-neighbourhood distribution"]

KINDS = ["partial_fit", "partial_fit", "add_arm", "remove_arm", "warm_start", "predict", "predict", "fit"]


def first_argmax(row):
    best, bv = None, None
    for k, v in row:
        if bv is None or v > bv:
            best, bv = k, v
    return best


def run_case(rs, ctx):
    l, p = gen.ALL_COMBOS[ctx.index % 48]
    cfg = gen.gen_cfg(rs, l, p, labels=gen.pick(rs, ["int", "str", "float"]), n_arms=int(rs.integers(2, 6)),
                      with_probs=bool(rs.integers(3) == 0))
    if p == "tree" and l == "eg":
        cfg["lp"]["epsilon"] = 0.0
    rk = None
    if l in ("eg", "ucb", "sm", "pop") and rs.integers(2):
        rk = "binary"  # few distinct values -> exact ties between arm means
    elif l in ("eg", "ucb", "sm", "pop") and rs.integers(3) == 0:
        cfg["reward_stress"] = int(gen.pick(rs, [4, 5]))  # near ties: means that differ in the 10th significant digit only
    nf = int(gen.pick(rs, [1, 2, 3]))
    sh = gen.Shadow(cfg, nf)
    ops = gen.gen_ops(rs, cfg, sh, 1, ["fit"], train_rows=(4, 20), rkind=rk) + \
        gen.gen_ops(rs, cfg, sh, int(rs.integers(3, 12)), KINDS, sizes=(1, 2, 3, 5, 8), train_rows=(1, 8), rkind=rk) + \
        gen.gen_ops(rs, cfg, sh, 1, ["predict"])
    if p == "none" and l in ("eg", "ucb", "sm", "pop", "lingreedy", "linucb") and len(cfg["arms"]) >= 3 and rs.integers(2):
        # the arg-max changes through warm_start: a cold arm (neutral 0, the maximum while every trained arm is negative)
        # receives a trained arm's state after the live bandit has already answered a query
        cold = cfg["arms"][int(rs.integers(len(cfg["arms"])))]
        trained = [a for a in cfg["arms"] if a != cold]
        f0 = ops[0]
        f0["d"] = [a if a != cold else gen.pick(rs, trained) for a in f0["d"]]
        if l != "pop":
            # far enough below zero that no exploration bonus of UCB1 (alpha <= 2.25, <= 20 rows) lifts a trained arm above the cold one
            f0["r"] = [-abs(v) - 0.125 - (8.0 if l == "ucb" else 0.0) for v in f0["r"]]
        sh2 = gen.Shadow(cfg, nf)
        sh2.fitted = True
        q1 = gen.gen_ops(rs, cfg, sh2, 1, ["predict"])
        q1[0]["live"] = True
        ws = gen.gen_warm(rs, cfg["arms"], q=1.0)
        ops = [f0] + q1 + [ws] + gen.gen_ops(rs, cfg, sh2, 2, ["predict"]) + [o for o in ops[1:] if o["op"] in ("partial_fit", "predict", "warm_start")]
    if p == "none" and (ctx.index // 48) % 4 == 1:
        # one very long query (131073-262144 rows: beyond any plausible internal block size): the arm of every row must
        # still be the first maximum of that row's expectations
        last_fit = [o for o in ops if o["op"] == "fit"][-1]
        nfq = len(last_fit["X"][0]) if gen.is_ctx(cfg) else 2
        ops.append({"op": "predict", "X": gen.gen_contexts(rs, 131073 + int(rs.integers(0, 131072)), nfq), "huge": True})
        ctx.count("huge_queries")
    m = gen.build(cfg)
    skeleton = "".join(o["op"][0] for o in ops)
    probs = cfg["np"].get("probs")
    for step, op in enumerate(ops):
        wit = {"cfg": cfg, "ops": ops[:step + 1]}
        if op["op"] != "predict":
            try:
                gen.apply_op(m, op)
            except Exception as ex:  # noqa: BLE001
                ctx.count("history_op_raised_" + type(ex).__name__)
                return
            continue
        X = op.get("X")
        if op.get("huge"):
            wit["ops"][-1] = {"op": "predict", "X": "<%d rows x %d features, regenerated from the case index>" % (len(X), len(X[0]))}
        if X is not None and gen.is_ctx(cfg) and rs.integers(3) == 0 and not op.get("huge"):
            X = [list(x) for x in X]
            X[int(rs.integers(len(X)))] = [50.0 + float(v) for v in X[0]]  # far away: empty radius neighbourhood
            wit["ops"][-1] = dict(op, X=X)
        a, b = copy.deepcopy(m), copy.deepcopy(m)
        if op.get("live") or rs.integers(2):
            # the live bandit answers the query as well (its streams advance): whatever a real query leaves behind
            # (caches, tables) is then part of the state the next twin check starts from
            try:
                if op.get("live") or rs.integers(2):
                    m.predict(np.asarray(X, dtype=float)) if X is not None else m.predict()
                else:
                    m.predict_expectations(np.asarray(X, dtype=float)) if X is not None else m.predict_expectations()
                ctx.count("live_queries")
            except Exception:  # noqa: BLE001
                pass
        try:
            pr = a.predict(np.asarray(X, dtype=float)) if X is not None else a.predict()
            ex = b.predict_expectations(np.asarray(X, dtype=float)) if X is not None else b.predict_expectations()
        except Exception as exn:  # noqa: BLE001
            ctx.violation("%s: query raised %s: %s" % (gen.cfg_sig(cfg), type(exn).__name__, str(exn)[:80]), wit)
            return
        prl = pr if isinstance(pr, list) else [pr]
        exl = ex if isinstance(ex, list) else [ex]
        if len(prl) != len(exl):
            ctx.violation("%s: %d predictions vs %d expectation rows" % (gen.cfg_sig(cfg), len(prl), len(exl)), wit)
            return
        arms = list(m.arms)
        for i, (x, e) in enumerate(zip(prl, exl)):
            ctx.ev()
            row = [(k, float(v)) for k, v in e.items()]
            nans = [math.isnan(v) for _, v in row]
            if any(nans):
                if p in ("none", "clusters", "tree"):
                    ctx.violation("%s: NaN expectation %r without an empty-neighbourhood policy" % (gen.cfg_sig(cfg), e), wit)
                    return
                if not all(nans):
                    ctx.violation("%s: row %d mixes NaN and numbers: %r" % (gen.cfg_sig(cfg), i, e), wit)
                    return
                if x not in arms or (probs is not None and probs[arms.index(x)] == 0):
                    ctx.violation("%s: empty neighbourhood row %d returned %r outside the support of %r" % (
                        gen.cfg_sig(cfg), i, x, probs), wit)
                    return
                ctx.nt(gen.cfg_sig(cfg), "empty", skeleton)
                ctx.count("empty_neighbourhood_rows")
                continue
            want = first_argmax(row)
            mx = max(v for _, v in row)
            if sum(1 for _, v in row if v == mx) > 1:
                ctx.nt(gen.cfg_sig(cfg), "tie", skeleton)
                ctx.count("tie_rows")
            if not (x == want and type(x) is type(want)):
                ctx.violation("%s: row %d predict -> %r but the first maximum of the expectations %r is %r" % (
                    gen.cfg_sig(cfg), i, x, e, want), wit)
                return
    ctx.sample({"cfg": cfg, "ops": [gen.short(o) for o in ops]})
