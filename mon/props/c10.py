"""C10 - prediction is read-only (twin monitor).

Bandit A answers q queries, its deep copy B (taken just before) answers none.  All of A's generator objects
are then grafted onto B (the only thing queries may change) and one seeded continuation - always containing
a partial_fit, often arm changes / warm start / refit - is run on both; the output streams must be equal
bit-for-bit.  Behaviour is compared, not raw state (LSH look-ups insert empty buckets, Thompson caches its
last draw: invisible by design).

As built: Workload extras: far-away rows (empty neighbourhoods) and 40 / 130-row batches among the intervening queries and in the continuation. Half of the threaded query phases run with the GIL handed over every microsecond; queries arrive in the history's habitual container; refits inside the continuation may change the width. Arm changes under no_nhood_prob_of_arm (K6); the public policy objects are compared at the end of every continuation. Round 8: a third of the cases run a second continuation on copies of both twins that starts with a full refit whose data omits an arm, queried straight away.
"""
from mon import env  # noqa: F401
import copy

import numpy as np

from mon import gen, rngs, twin

ID = "C10"
LEVEL = "exploration"
TECHNIQUE = "runtime twin monitor: queried bandit vs never-queried deep copy after grafting generator positions; bit-exact continuation comparison"
RULE = ("48 policy combinations x (n_jobs, backend) in {(1,-),(3,threading),(3,loky)} x 1-6 intervening queries of 1-8 rows "
        "(predict and predict_expectations) x continuations with partial_fit (+ arm change / warm start / refit); non-trivial "
        "= >=2 queries before a continuation containing partial_fit on a neighbourhood or linear policy, or any case with "
        "threads; distinct = (combo, backend, query sizes, continuation skeleton)")
BUDGET = {"quick": {"cases": 48 * 8, "shards": 16}, "thorough": {"cases": 48 * 150, "shards": 16, "wall_s": 3600}}
MIN = {"quick": {"evaluations": 200, "nontrivial": 80}, "thorough": {"evaluations": 6000, "nontrivial": 2000}}
ASSUMPTIONS = ["random streams are allowed to advance: all generator objects of the queried bandit are copied onto the twin"]


def run_case(rs, ctx):
    l, p = gen.ALL_COMBOS[ctx.index % 48]
    mode = (ctx.index // 48) % 5
    n_jobs, backend = [(1, None), (3, "threading"), (1, None), (2, "threading"), (3, "loky")][mode]
    if backend == "loky" and ctx.index % (16 if ctx.tier == "quick" else 4):
        n_jobs, backend = 3, "threading"  # process back-ends predict on pickled copies: a few cases suffice
    cfg = gen.gen_cfg(rs, l, p, labels=gen.pick(rs, ["int", "str", "float"]), n_arms=int(rs.integers(2, 5)),
                      with_probs=bool(rs.integers(4) == 0), n_jobs=n_jobs, backend=backend)
    if p == "tree" and (l == "ts" or (l == "eg" and cfg["lp"]["epsilon"] > 0)):
        # known finding K2 (C05): these leaf policies draw from the bandit-level generator, which worker threads race
        # on; the continuation itself would be schedule dependent on both twins - keep them single-threaded here
        cfg["n_jobs"], cfg["backend"] = 1, None
        n_jobs, backend = 1, None
    if cfg["np"].get("probs") is not None and rs.integers(2):
        cfg["arm_changes_despite_probs"] = True  # arms change although an empty-neighbourhood distribution is configured (K6)
        ctx.count("probs_with_arm_changes_cases")
    nf = int(gen.pick(rs, [1, 2, 3]))
    sh = gen.Shadow(cfg, nf)
    sh.vary_nf = True
    hist = gen.gen_ops(rs, cfg, sh, 1, ["fit"], train_rows=(5, 20)) + \
        gen.gen_ops(rs, cfg, sh, int(rs.integers(0, 4)), ["partial_fit", "add_arm", "remove_arm", "warm_start"])
    queries = gen.gen_ops(rs, cfg, sh, int(rs.integers(1, 7)), ["predict", "predict_expectations"],
                          sizes=(1, 2, 3, 5, 8) if rs.integers(3) else (1, 3, 40, 130))
    cont2 = None
    if ctx.index % 3 == 2:
        # a second continuation, run on copies of both twins: it starts with a full refit whose data omits an arm, queried straight
        # away (whatever the queries left behind for that arm is not overwritten by the training of the refit). It draws from a
        # stream of its own, so the first continuation - and with it every case of earlier rounds - stays exactly as it was
        rs2 = np.random.default_rng([int(ctx.seed), 10, int(ctx.index), 8])
        for _ in range(12):
            sh2 = copy.deepcopy(sh)
            f = gen.gen_ops(rs2, cfg, sh2, 1, ["fit"], train_rows=(4, 12))
            if f and any(a not in f[0]["d"] for a in sh2.arms):
                cont2 = f + gen.gen_ops(rs2, cfg, sh2, 2, ["predict_expectations", "predict"]) + gen.gen_continuation(rs2, cfg, sh2)
                ctx.count("continuations_starting_with_a_refit_that_omits_an_arm")
                break
    cont = gen.gen_continuation(rs, cfg, sh)
    for o in cont + queries:
        if o["op"] in ("predict", "predict_expectations") and o.get("X") is not None and gen.is_ctx(cfg) and rs.integers(3) == 0:
            o["X"][-1] = [50.0 + v for v in o["X"][-1]]  # a far-away row: empty neighbourhood for Radius, rare bucket for LSH
    A = gen.build(cfg)
    wit = {"cfg": cfg, "history": hist, "queries": queries, "continuation": cont}
    o = gen.run_ops(A, hist)
    if any(isinstance(x, list) and x and x[0] == "EXC" for x in o):
        ctx.count("history_raised")
        return
    B = copy.deepcopy(A)
    if backend == "threading" and rs.integers(2):
        # the worker threads of the queries interleave inside their pure-Python sections (GIL handed over every microsecond)
        from mon import sched
        with sched.FastSwitch():
            qa = gen.run_ops(A, queries)
        ctx.count("stressed_threaded_query_phases")
    else:
        qa = gen.run_ops(A, queries)
    if any(isinstance(x, list) and x[:1] == ["EXC"] for x in qa) and all(x[-1] == "K6" for x in qa if isinstance(x, list) and x[:1] == ["EXC"]):
        # known finding K6: these queries were rejected; a rejected query must change nothing either - the comparison goes on
        ctx.violation("%s: predict on a row without neighbours raised ValueError (arms changed under no_nhood_prob_of_arm)" % gen.cfg_sig(cfg),
                      wit, mech="K6")
        qa = [x for x in qa if not (isinstance(x, list) and x[:1] == ["EXC"])]
    raised = [q for q, x in zip(queries, qa) if isinstance(x, list) and x and x[0] == "EXC"]
    if raised and all(x[1] == "UnboundLocalError" and gen.k5_applies(A, q, "UnboundLocalError")
                      for q, x in zip(queries, qa) if isinstance(x, list) and x and x[0] == "EXC"):
        ctx.violation("%s: a Series query on a TreeBandit without any fitted tree raised UnboundLocalError" % gen.cfg_sig(cfg), wit, mech="K5")
        return
    if any(isinstance(x, list) and x and x[0] == "EXC" for x in qa):
        ctx.violation("%s: a query raised: %r" % (gen.cfg_sig(cfg), [x for x in qa if isinstance(x, list) and x[:1] == ["EXC"]][:1]), wit)
        return
    rngs.graft(A, B)
    A2, B2 = (copy.deepcopy(A), copy.deepcopy(B)) if cont2 else (None, None)
    oa, ob = gen.run_ops(A, cont), gen.run_ops(B, cont)
    ctx.ev()
    d = twin.first_diff(oa, ob)
    if not d and cont2:
        wit["continuation"] = cont2
        ctx.ev()
        d = twin.first_diff(gen.run_ops(A2, cont2), gen.run_ops(B2, cont2))
    if d:
        ctx.violation("%s (n_jobs=%d, backend=%s): after %d queries the bandit differs from its never-queried twin: %s" % (
            gen.cfg_sig(cfg), n_jobs, backend, len(queries), d), wit)
        return
    if (len(queries) >= 2 and (p != "none" or gen.is_linear(cfg))) or backend:
        ctx.nt(gen.cfg_sig(cfg), backend, [len(q["X"]) if q.get("X") else 0 for q in queries], "".join(c["op"][0] for c in cont))
    ctx.sample({"cfg": cfg, "history": [gen.short(x) for x in hist], "queries": [gen.short(x) for x in queries],
                "continuation": [gen.short(x) for x in cont]})
