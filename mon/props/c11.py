"""C11 - LSHNearest neighbourhoods are the sign-random-projection collisions (history + model, metamorphic).

Oracle: hyperplanes are read from the live bandit (they are random; there is no other source), the sign
pattern of every recorded row and of the query is computed row by row, the neighbourhood is the set of
recorded rows (positions in the accumulated fit + partial_fit history) sharing the query's pattern in at
least one table, and the reference expectations come from a fresh context-free bandit trained on exactly that
set.  Metamorphic monitors: positive scaling of the query changes nothing; a stored row (or a positive
multiple) always finds itself; hyperplanes never change after fit.

As built: Extras: refits in the middle of a history (new planes, tables must be rebuilt), positive multiples from 2^-500 to 2^560, Thompson / Softmax checked against a reference seeded with the row's own seed; in a third of the histories the partial_fit batches arrive as float32 arrays and hold rows a hair (1e-8 relative) off a hyperplane, later queried in double precision.
"""
from mon import env  # noqa: F401
import math

import numpy as np

from mabwiser.mab import MAB
from mon import gen

ID = "C11"
LEVEL = "exploration"
TECHNIQUE = "runtime monitor: recorded history + sign-pattern collision oracle computed from the live hyperplanes; metamorphic scaling twin"
RULE = ("LSHNearest(n_dimensions 1-6, n_tables 1-4) over EpsilonGreedy(0)/UCB1, d 1-5 features on grid {-3..3}, 10-60 rows "
        "over fit + 0-5 partial_fit, hashing with n_jobs 1-3 (threads); queries: stored rows, stored rows scaled by 2^k, zero "
        "vector, random; non-trivial = neighbourhood containing a partial_fit row, or empty, or scaled stored row; distinct = "
        "(lp, dims, tables, d, n_jobs, feature, stored rows, query index)")
BUDGET = {"quick": {"cases": 720, "shards": 16}, "thorough": {"cases": 30000, "shards": 16, "wall_s": 3600}}
MIN = {"quick": {"evaluations": 1500, "nontrivial": 200}, "thorough": {"evaluations": 80000, "nontrivial": 8000}}
ASSUMPTIONS = ["hyperplanes are taken from mab._imp.table_to_plane (trusted as the planes fixed at fit time; their constancy "
               "across partial_fit is itself monitored)", "dyadic rewards: the iteration order of the neighbour set cannot change sums",
               "projections exactly 0 count as 'not positive' for stored rows and queries alike"]


STRICT = [True]  # sign convention for an exactly-zero projection: the statement leaves it open, it only has to be consistent


def pattern(x, planes):
    x = np.asarray(x, dtype=float)
    if STRICT[0]:
        return [tuple(bool(v) for v in (x @ planes[k] > 0)) for k in sorted(planes)]
    return [tuple(bool(v) for v in (x @ planes[k] >= 0)) for k in sorted(planes)]


def same(a, b):
    if list(a.keys()) != list(b.keys()):
        return False
    for k in a:
        x, y = float(a[k]), float(b[k])
        if math.isnan(x) != math.isnan(y):
            return False
        if not math.isnan(x) and abs(x - y) > 1e-12 * (1 + abs(y)):
            return False
    return True


def run_case(rs, ctx):
    """judge the whole case under the 'zero is not positive' convention; if (and only if) that fails, judge it again
    under 'zero is positive': a consistent convention is all the property asks for"""
    import copy
    from mon.worker import case_rng
    STRICT[0] = True
    trial = copy.copy(ctx)
    trial.violations, trial.nontrivial, trial.counters, trial.samples = [], set(), {}, []
    trial.evaluations = 0
    _run(rs, trial)
    if trial.violations and not any(v["what"].startswith(("positive scaling", "hyperplanes")) for v in trial.violations):
        STRICT[0] = False
        second = copy.copy(ctx)
        second.violations, second.nontrivial, second.counters, second.samples = [], set(), {}, []
        second.evaluations = 0
        _run(case_rng(ctx.seed, ctx.prop, ctx.index), second)
        STRICT[0] = True
        if not second.violations:
            second.count("held_under_zero_is_positive_convention")
            trial = second
    ctx.evaluations += trial.evaluations
    ctx.nontrivial |= trial.nontrivial
    ctx.violations += trial.violations
    ctx.samples += trial.samples
    for k, v in trial.counters.items():
        ctx.count(k, v)


def _run(rs, ctx):
    lk = ["eg", "ucb", "ts", "sm"][ctx.index % 4]
    randomised = lk in ("ts", "sm")
    labels = gen.pick(rs, ["int", "str", "float"])
    n_arms = int(rs.integers(2, 5))
    arms = list(gen.LABELS[labels][:n_arms])
    d = int(rs.integers(1, 6))
    nd, nt = int(rs.integers(1, 7)), int(rs.integers(1, 5))
    if rs.integers(6) == 0:
        nd = int(gen.pick(rs, [17, 20, 24]))  # a million buckets: hash codes far above 1e5
    n_jobs = int(gen.pick(rs, [1, 2, 3]))
    cfg = {"arms": arms, "labels": labels, "lp": gen.gen_lp(rs, lk, deterministic=True),
           "reward_stress": int(rs.integers(8)) if rs.integers(5) == 0 else None,
           "np": {"kind": "lsh", "n_dimensions": nd, "n_tables": nt, "probs": None},
           "seed": int(rs.integers(10 ** 6)), "n_jobs": n_jobs, "backend": "threading" if n_jobs > 1 else None}
    n_chunks = int(rs.integers(1, 7))
    sizes = [int(rs.integers(5, 20))] + [int(rs.integers(1, 10)) for _ in range(n_chunks - 1)]
    chunks = []
    for n in sizes:
        b = gen.gen_batch(rs, cfg, arms, n, d)
        b["X"] = [[float(v) for v in row] for row in rs.integers(-3, 4, (n, d))]
        chunks.append(b)
    m = gen.build(cfg)
    rows_d, rows_r, rows_X = [], [], []
    wit = {"cfg": cfg, "chunks": chunks}
    hair_mode = d >= 2 and rs.integers(3) == 0
    planes0 = None
    first_len = 0
    refit_at = int(rs.integers(1, len(chunks))) if len(chunks) > 2 and rs.integers(3) == 0 else -1
    wit["refit_at_chunk"] = refit_at
    for ci, c in enumerate(chunks):
        refit = ci == refit_at  # a second fit after the bandit has already answered queries: new planes, new tables
        if hair_mode and ci > 0 and not refit and planes0 is not None:
            # rows a hair off a hyperplane (the decision boundary of the hash): the projection onto the plane, rounded to
            # single precision - its float64 projection is ~1e-8 of its terms, unambiguous in double precision, pure
            # rounding noise in single precision; the batch arrives as a float32 array
            for i in range(len(c["X"])):
                if rs.integers(2):
                    continue
                p_ = planes0[int(gen.pick(rs, sorted(planes0)))][:, int(rs.integers(nd))]
                base = rs.normal(0, 3, d)
                x32 = (base - (base @ p_) / (p_ @ p_) * p_).astype(np.float32).astype(float)
                if abs(x32 @ p_) > 1e-11 * float(np.sum(np.abs(x32 * p_))):
                    c["X"][i] = [float(v) for v in x32]
                    ctx.count("rows_a_hair_off_a_hyperplane")
                    if i + 1 < len(c["X"]) and rs.integers(2):
                        # ... and its mirror image on the other side of that hyperplane: the two rows differ in one bit of the code
                        m32 = (x32 - 2.0 * (x32 @ p_) / (p_ @ p_) * p_).astype(np.float32).astype(float)
                        if abs(m32 @ p_) > 1e-11 * float(np.sum(np.abs(m32 * p_))) and (m32 @ p_ > 0) != (x32 @ p_ > 0):
                            c["X"][i + 1] = [float(v) for v in m32]
                            ctx.count("mirrored_hair_rows")
            c["x_enc"] = "f4"
        op = dict(c, op="fit" if (ci == 0 or refit) else "partial_fit")
        try:
            gen.apply_op(m, op)
        except Exception as ex:  # noqa: BLE001
            ctx.violation("%s raised %s: %s" % (gen.short(op), type(ex).__name__, str(ex)[:80]), wit)
            return
        if refit:
            rows_d, rows_r, rows_X = [], [], []
        rows_d += c["d"]
        rows_r += c["r"]
        rows_X += c["X"]
        planes = {k: np.array(v, dtype=float) for k, v in m._imp.table_to_plane.items()}
        if ci == 0 or refit:
            first_len = len(rows_d)
            planes0 = planes
            if len(planes) != nt or any(p.shape != (d, nd) for p in planes.values()):
                ctx.violation("hyperplane sets %r do not match n_tables=%d, (features, n_dimensions)=(%d, %d)" % (
                    {k: p.shape for k, p in planes.items()}, nt, d, nd), wit)
                return
        else:
            ctx.ev()
            if any(not np.array_equal(planes[k], planes0[k]) for k in planes0):
                ctx.violation("hyperplanes changed during partial_fit (they must stay fixed after fit)", wit, kind="planes_changed")
                return
        if ci not in (0, len(chunks) - 1) and not refit and ci + 1 != refit_at and rs.integers(2):
            continue
        pats = [pattern(x, planes0) for x in rows_X]
        Q, kinds = [], []
        for j in range(5 if ctx.tier == "quick" else 7):
            t = j % 5
            if t == 0:
                Q.append(list(rows_X[int(rs.integers(len(rows_X)))])); kinds.append("stored")
            elif t == 1:
                base = rows_X[int(rs.integers(first_len, len(rows_X)))] if len(rows_X) > first_len else rows_X[-1]
                c_ = float(gen.pick(rs, [0.5, 2.0, 8.0, 0.125, 2.0 ** 560, 2.0 ** -500, 2.0 ** 100]))  # any positive multiple
                Q.append([c_ * v for v in base]); kinds.append("scaled_stored")
            elif t == 2:
                Q.append([0.0] * d); kinds.append("zero")
            else:
                Q.append([float(v) for v in rs.integers(-4, 5, d)]); kinds.append("random")
        wit["queries"] = Q
        import copy as _copy
        g_ = _copy.deepcopy(m._rng)
        seeds1 = g_.randint(np.iinfo(np.int32).max, size=len(Q)) if randomised else [None] * len(Q)
        m_scaled = _copy.deepcopy(m) if randomised else m  # same stream position for the scaled query of a randomised policy
        try:
            res = m.predict_expectations(np.asarray(Q, dtype=float))
            scale = float(gen.pick(rs, [2.0, 0.25, 16.0, 2.0 ** 520, 2.0 ** -480]))
            res_scaled = m_scaled.predict_expectations(scale * np.asarray(Q, dtype=float))
        except Exception as ex:  # noqa: BLE001
            ctx.violation("predict_expectations raised %s: %s" % (type(ex).__name__, str(ex)[:80]), wit)
            return
        for j, q in enumerate(Q):
            ctx.ev(2)
            got = res[j]
            qp = pattern(q, planes0)
            idx = [i for i, rp in enumerate(pats) if any(a == b for a, b in zip(rp, qp))]
            feats = []
            if kinds[j] in ("stored", "scaled_stored") and any(v != 0 for v in q):
                feats.append(kinds[j])
                if all(math.isnan(float(v)) for v in got.values()):
                    ctx.violation("query %r is a positive multiple of a stored context but its neighbourhood is empty" % (q,), wit,
                                  kind="self_not_found")
                    return
            if not idx:
                feats.append("empty")
                ok = list(got.keys()) == list(m.arms) and all(math.isnan(float(v)) for v in got.values())
                want = "all NaN"
            else:
                if any(i >= first_len for i in idx):
                    feats.append("pfit_row_inside")
                ref = MAB(list(m.arms), gen.make_lp(cfg["lp"])) if seeds1[j] is None else \
                    MAB(list(m.arms), gen.make_lp(cfg["lp"]), seed=int(seeds1[j]))
                ref.fit(np.asarray([rows_d[i] for i in idx]), np.asarray([rows_r[i] for i in idx], dtype=float))
                want = ref.predict_expectations()
                ok = same(got, want)
            if not ok:
                ctx.violation("lsh(n_dimensions=%d, n_tables=%d) over %s, %d stored rows: query %r (%s) -> %r, the learning policy "
                              "trained on the %d colliding rows %s gives %r" % (nd, nt, lk, len(rows_X), q, kinds[j], dict(got),
                                                                                len(idx), idx[:12], want if isinstance(want, str) else dict(want)),
                              wit, kind="collision_set|" + ",".join(feats))
                return
            qs = scale * np.asarray(q, dtype=float)
            representable = bool(np.all(np.isfinite(qs)) and all((v == 0) == (w == 0) for v, w in zip(q, qs)) and
                                 all(abs(w) > 1e-280 or w == 0 for w in qs))
            if not representable:
                ctx.count("scaled_query_not_representable")
            if representable and not same(got, res_scaled[j]):
                ctx.violation("positive scaling changed the result: query %r -> %r but %g * query -> %r" % (
                    q, dict(got), scale, dict(res_scaled[j])), wit, kind="scaling")
                return
            for f in feats:
                ctx.count("rows_" + f)
            if feats:
                ctx.nt(lk, nd, nt, d, n_jobs, ",".join(feats), len(rows_X), j)
    ctx.sample({"cfg": cfg, "chunk_sizes": sizes, "d": d})
