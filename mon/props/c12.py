"""C12 - Clusters and TreeBandit condition on exactly the query's cell (history + model).

Clusters: the cell of every recorded row is kmeans.labels_ (which must cover the whole recorded history),
the query's cell is kmeans.predict(q); reference = fresh learning-policy bandit (current arms) trained on
exactly the recorded rows of that cell.  TreeBandit: per arm, the query's leaf is arm_to_tree[arm].apply(q),
the reference statistic is computed from the recorded rewards of that arm whose contexts fall into the same
leaf: mean (EpsilonGreedy 0), mean + alpha sqrt(2 ln n / n) (UCB1), Beta(1+s, 1+f) checked by a 6-sigma
moment test over repeated identical queries (Thompson); an arm without observations keeps 0.

As built: Extras: refits, MiniBatchKMeans with more clusters than the rows can fill (cells without rows: reference = policy trained on the empty set), tree queries a hair (1e-9, 1e-12 relative) off the midpoints between stored values, randomised cluster policies checked with the row's own seed; a third of the non-linear Clusters histories carry a large common offset (1.7e9, 1e6) on every context. Clusters histories also carry late rows of removed arms (decisions name a label that is no current arm), decisions as pandas Series and a 'retire the arm with the longest label' sequence.
"""
from mon import env  # noqa: F401
import math

import numpy as np

from mabwiser.mab import MAB
from mon import gen

ID = "C12"
LEVEL = "exploration"
TECHNIQUE = "runtime monitor: recorded history partitioned by the fitted k-means labels / tree leaves; reference statistic from a fresh learning-policy bandit or closed form"
RULE = ("Clusters(n_clusters 2-4, KMeans|MiniBatchKMeans) over EpsilonGreedy(0)/UCB1/LinUCB/LinGreedy(0) and TreeBandit "
        "(tree_parameters {}, max_depth 1-3, min_samples_leaf 2-4) over EpsilonGreedy(0)/UCB1/Thompson; histories fit + "
        "partial_fit + add/remove arm, queried after every training call; non-trivial = queries of one batch fall into >=2 "
        "different cells, or an arm added after fit has rows; distinct = (policy, lp, params, history skeleton, #cells seen)")
BUDGET = {"quick": {"cases": 448, "shards": 16}, "thorough": {"cases": 8000, "shards": 16, "wall_s": 3600}}
MIN = {"quick": {"evaluations": 1200, "nontrivial": 80}, "thorough": {"evaluations": 40000, "nontrivial": 3000}}
ASSUMPTIONS = ["the fitted scikit-learn objects (kmeans labels_/predict, tree.apply) are trusted as the definition of a cell",
               "Thompson leaves: distribution parameters checked by a 6-sigma moment test over 400 repeated queries (no sampler replay)",
               "dyadic rewards / integer-grid contexts; linear references within 1e-9"]

KINDS = ["partial_fit", "partial_fit", "partial_fit", "add_arm", "remove_arm", "fit"]


def same(a, b, tol):
    if list(a.keys()) != list(b.keys()):
        return False
    return all(abs(float(a[k]) - float(b[k])) <= tol * (1 + abs(float(b[k]))) for k in a)


def check_clusters(m, cfg, rows, Q, ctx, wit):
    import copy as _copy
    imp = m._imp
    randomised = cfg["lp"]["kind"] in ("ts", "sm", "pop", "rnd") or cfg["lp"].get("epsilon", 0) > 0
    row_seeds = _copy.deepcopy(m._rng).randint(np.iinfo(np.int32).max, size=len(Q)) if randomised else [None] * len(Q)
    labels = np.asarray(imp.kmeans.labels_)
    if len(labels) != len(rows["d"]):
        ctx.violation("clusters: k-means labels cover %d rows, the recorded history has %d" % (len(labels), len(rows["d"])), wit,
                      kind="clusters_history_length")
        return False
    cells = imp.kmeans.predict(np.asarray(Q, dtype=float))
    res = m.predict_expectations(np.asarray(Q, dtype=float))
    res = [res] if isinstance(res, dict) else res
    tol = 1e-9 if gen.is_linear(cfg) else 1e-12
    for j, q in enumerate(Q):
        ctx.ev()
        idx = [i for i in range(len(labels)) if labels[i] == cells[j]]
        # randomised policies: the reference is seeded with the row's own seed (drawn before the rows are partitioned)
        ref = MAB(list(m.arms), gen.make_lp(cfg["lp"])) if row_seeds[j] is None else \
            MAB(list(m.arms), gen.make_lp(cfg["lp"]), seed=int(row_seeds[j]))
        d = np.asarray([rows["d"][i] for i in idx])
        r = np.asarray([rows["r"][i] for i in idx], dtype=float)
        if not idx:
            ctx.count("query_cells_without_stored_rows")  # the reference is the learning policy trained on the empty set
        if gen.is_linear(cfg):
            ref.fit(d, r, np.asarray([rows["X"][i] for i in idx], dtype=float).reshape(len(idx), len(q)))
            want = ref.predict_expectations(np.asarray([q], dtype=float))
        else:
            ref.fit(d, r)
            want = ref.predict_expectations()
        if not same(res[j], want, tol):
            ctx.violation("%s: query %r lies in cluster %d (%d of %d recorded rows) -> %r, the learning policy trained on exactly "
                          "those rows gives %r" % (gen.cfg_sig(cfg), q, cells[j], len(idx), len(labels), dict(res[j]), dict(want)),
                          wit, kind="clusters_cell")
            return False
    return len(set(int(c) for c in cells))


def check_tree(m, cfg, per_arm, Q, ctx, wit, rs):
    imp = m._imp
    lk = cfg["lp"]["kind"]
    res = m.predict_expectations(np.asarray(Q, dtype=float))
    res = [res] if isinstance(res, dict) else res
    cells_seen = set()
    for j, q in enumerate(Q):
        for a in m.arms:
            ctx.ev()
            xs, rw = per_arm.get(a, ([], []))
            got = float(res[j][a])
            if not xs:
                if lk != "ts" and got != 0:
                    ctx.violation("tree/%s: arm %r has no observations but expectation %r (neutral value is 0)" % (lk, a, got), wit,
                                  kind="tree_unobserved")
                    return False
                continue
            tree = imp.arm_to_tree[a]
            leaf_q = tree.apply(np.asarray([q], dtype=float))[0]
            leaves = tree.apply(np.asarray(xs, dtype=float))
            cell = [rw[i] for i in range(len(rw)) if leaves[i] == leaf_q]
            cells_seen.add((repr(a), int(leaf_q)))
            if lk == "ts":
                continue
            n = len(cell)
            if n == 0:
                want = 0.0  # a leaf of a tree fitted on this arm's first batch always holds rows; defensive
            else:
                mean = math.fsum(cell) / n
                want = mean if lk == "eg" else mean + cfg["lp"]["alpha"] * math.sqrt(2 * math.log(n) / n)
            if abs(got - want) > 1e-12 * (1 + abs(want)):
                ctx.violation("tree/%s: query %r, arm %r: leaf %d holds %d of the arm's %d recorded rewards -> documented statistic "
                              "%r, bandit reports %r" % (lk, q, a, leaf_q, n, len(rw), want, got), wit, kind="tree_leaf")
                return False
    if lk == "ts":
        q = Q[int(rs.integers(len(Q)))]
        n = 400
        rep = m.predict_expectations(np.asarray([q] * n, dtype=float))
        for a in m.arms:
            ctx.ev()
            xs, rw = per_arm.get(a, ([], []))
            draws = [float(row[a]) for row in rep]
            if not xs:
                if any(v != 0 for v in draws):
                    ctx.violation("tree/ts: arm %r has no observations but draws are not the neutral 0" % (a,), wit, kind="tree_unobserved")
                    return False
                continue
            tree = imp.arm_to_tree[a]
            leaf_q = tree.apply(np.asarray([q], dtype=float))[0]
            leaves = tree.apply(np.asarray(xs, dtype=float))
            cell = [rw[i] for i in range(len(rw)) if leaves[i] == leaf_q]
            s, f = 1 + sum(1 for v in cell if v == 1), 1 + sum(1 for v in cell if v == 0)
            mean, var = s / (s + f), s * f / ((s + f) ** 2 * (s + f + 1))
            mh = float(np.mean(draws))
            if abs(mh - mean) > 6 * math.sqrt(var / n) + 1e-9:
                ctx.violation("tree/ts: query %r arm %r: leaf %d holds %d successes / %d failures; mean of %d draws %.4f vs Beta(%d,%d) "
                              "mean %.4f" % (q, a, leaf_q, s - 1, f - 1, n, mh, s, f, mean), wit, kind="tree_ts_leaf")
                return False
            cells_seen.add((repr(a), int(leaf_q)))
    return len(cells_seen)


def run_case(rs, ctx):
    is_tree = ctx.index % 2 == 1
    labels = gen.pick(rs, ["int", "str", "float"])
    n_arms = int(rs.integers(2, 5))
    if is_tree:
        lk = ["eg", "ucb", "ts"][(ctx.index // 2) % 3]
        npd = {"kind": "tree", "params": gen.pick(rs, [{}, {"max_depth": 1}, {"max_depth": 2}, {"max_depth": 3},
                                                       {"min_samples_leaf": 2}, {"min_samples_leaf": 4}, {"max_depth": 2, "min_samples_leaf": 3}])}
    else:
        lk = ["eg", "ucb", "linucb", "lingreedy", "ts", "sm", "rnd", "eg_explore"][(ctx.index // 2) % 8]
        npd = {"kind": "clusters", "n_clusters": int(rs.integers(2, 5)), "minibatch": bool(rs.integers(3) == 0)}
        if rs.integers(4) == 0:
            # many clusters for few rows: some cluster ids receive no stored row at all
            npd = {"kind": "clusters", "n_clusters": int(rs.integers(5, 9)), "minibatch": bool(rs.integers(4) > 0)}
    lpd = gen.gen_lp(rs, lk, deterministic=True) if lk != "eg_explore" else {"kind": "eg", "epsilon": float(gen.pick(rs, [0.3, 1.0]))}
    cfg = {"arms": list(gen.LABELS[labels][:n_arms]), "labels": labels, "lp": lpd, "np": npd,
           "reward_stress": int(rs.integers(8)) if (rs.integers(5) == 0 and not lk.startswith("lin")) else None,
           "seed": int(rs.integers(10 ** 6)), "n_jobs": 1, "backend": None}
    nf = int(rs.integers(1, 4))
    sh = gen.Shadow(cfg, nf)
    ops = gen.gen_ops(rs, cfg, sh, 1, ["fit"], train_rows=(10, 14) if npd.get("n_clusters", 0) >= 5 else (10, 30)) + gen.gen_ops(rs, cfg, sh, int(rs.integers(0, 7)), KINDS, train_rows=(1, 10))
    offset = 0.0
    if not is_tree and not lk.startswith("lin") and rs.integers(3) == 0:
        # contexts with a large common offset (unix timestamps, identifiers): the spread is tiny relative to the magnitude
        offset = float(gen.pick(rs, [1.7e9, 1.7e9, 1.0e6]))
        for o in ops:
            if o.get("X") is not None:
                o["X"] = [[v + offset for v in row] for row in o["X"]]
        ctx.count("offset_context_histories")
    if not is_tree and labels == "str" and len(sh.arms) >= 3 and rs.integers(3) == 0:
        # the arm with the longest label is retired, a later batch (a pandas Series of strings) still carries a few of its rows
        victim = max(sh.arms, key=len)
        sh.arms.remove(victim)
        sh.removed.append(victim)
        late = gen.gen_ops(rs, cfg, sh, 1, ["partial_fit"], train_rows=(4, 10))
        ops += [{"op": "remove_arm", "arm": victim}] + late
        ctx.count("retired_longest_label_scenarios")
    if not is_tree:
        # late log rows: after remove_arm, later batches may still name the removed arm (decisions are not validated against
        # the arm list; such rows belong to no arm); decisions often arrive as a pandas Series (labels of different lengths)
        gone = []
        for o in ops:
            if o["op"] == "remove_arm":
                gone.append(o["arm"])
            elif o["op"] == "add_arm" and o["arm"] in gone:
                gone.remove(o["arm"])
            elif o["op"] == "partial_fit":
                if gone and rs.integers(2):
                    o["d"] = [gen.pick(rs, gone) if rs.integers(4) == 0 else a for a in o["d"]]
                    ctx.count("batches_with_rows_of_removed_arms")
                if rs.integers(2):
                    o["d_enc"] = "series"
            elif o["op"] == "fit" and rs.integers(2):
                o["d_enc"] = "series"
    m = gen.build(cfg)
    rows = {"d": [], "r": [], "X": []}
    per_arm = {}
    late_arms = set()
    late_with_rows = False
    max_cells = 0
    for step, op in enumerate(ops):
        wit = {"cfg": cfg, "ops": ops[:step + 1]}
        try:
            gen.apply_op(m, op)
        except Exception as ex:  # noqa: BLE001
            ctx.violation("%s raised %s: %s" % (gen.short(op), type(ex).__name__, str(ex)[:80]), wit)
            return
        k = op["op"]
        if k == "add_arm":
            per_arm[op["arm"]] = ([], [])
            late_arms.add(op["arm"])
            continue
        if k == "remove_arm":
            per_arm.pop(op["arm"], None)
            late_arms.discard(op["arm"])
            continue
        if k == "fit":
            rows = {"d": [], "r": [], "X": []}
            per_arm = {}
        rows["d"] += op["d"]
        rows["r"] += op["r"]
        rows["X"] += op["X"]
        for a, r, x in zip(op["d"], op["r"], op["X"]):
            per_arm.setdefault(a, ([], []))
            per_arm[a][0].append(x)
            per_arm[a][1].append(r)
            late_with_rows |= a in late_arms
        Q = [[v + offset for v in row] for row in gen.gen_contexts(rs, 5, nf)] + [list(rows["X"][int(rs.integers(len(rows["X"])))])]
        if is_tree:
            # queries a hair above / below the midpoints between stored values (where split thresholds lie): scikit-learn
            # compares in float32, so these decide whether the library really asks the fitted tree
            for eps in (1e-9, -1e-9, 1e-12):
                q = list(Q[int(rs.integers(len(Q)))])
                j = int(rs.integers(nf))
                q[j] = (math.floor(q[j]) + 0.5) * (1.0 + eps)
                Q.append(q)
        wit["queries"] = Q
        try:
            n_cells = check_tree(m, cfg, per_arm, Q, ctx, wit, rs) if is_tree else check_clusters(m, cfg, rows, Q, ctx, wit)
        except Exception as ex:  # noqa: BLE001
            ctx.violation("%s: query raised %s: %s" % (gen.cfg_sig(cfg), type(ex).__name__, str(ex)[:80]), wit)
            return
        if n_cells is False:
            return
        max_cells = max(max_cells, n_cells)
    if max_cells >= 2 or late_with_rows:
        ctx.nt(gen.cfg_sig(cfg), sorted(npd.items(), key=repr), "".join(o["op"][0] for o in ops), max_cells, late_with_rows)
    ctx.sample({"cfg": cfg, "ops": [gen.short(o) for o in ops], "nf": nf})
