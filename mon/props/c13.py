"""C13 - warm_start only initialises cold arms, from their nearest trained arm (history + model).

Reference model (in this file, independent of the library): cosine distances from scipy.cdist directly, per-arm
closest distance, numpy.quantile threshold, ledger of observed / warm-started arms built from the recorded call
events.  Per-arm learned state is read generically from the hooked implementor (every dict attribute keyed by
the arm, arm models flattened to arrays; status and cross-arm normalised values excluded) before and after
every warm_start, and behaviourally (deterministic expectations of a warm-started arm equal its source's).

As built: Extras: feature vectors scaled by 1e-9 / 1e-12 / 1e9 (cosine distance is scale invariant), exact distance == threshold decided with scipy's own values; 1/45 of the cases have 257-336 arms.
"""
from mon import env  # noqa: F401
import copy
import math

import numpy as np

from mon import gen

ID = "C13"
LEVEL = "exploration"
TECHNIQUE = "runtime monitor: before/after per-arm state hooks around every warm_start + independent cosine/quantile reference model and observed/warm ledger"
RULE = ("8 warm-start capable policies without neighbourhood policy x 3-7 arms x feature dictionaries incl. zero and duplicate "
        "vectors x quantiles {0,.25,.5,.75,1} x histories with warm_start before/after partial_fit, refit and arm changes; each "
        "warm_start is checked for: trained/warm arms untouched, cold arms untouched or exact copy of a nearest trained arm iff "
        "distance <= threshold, idempotence, monotonicity in the quantile (deep copies), cold_arms == ledger, no aliasing with "
        "the source. Non-trivial = a call that warm-starts >=1 arm and leaves >=1 cold, or zero/duplicate vectors present; "
        "distinct = (policy, #arms, quantile, warm/cold pattern, history skeleton)")
BUDGET = {"quick": {"cases": 8 * 180, "shards": 16}, "thorough": {"cases": 8 * 5000, "shards": 16, "wall_s": 3600}}
MIN = {"quick": {"evaluations": 1500, "nontrivial": 100, "counters": {"many_arm_cases": 16}},
       "thorough": {"evaluations": 100000, "nontrivial": 5000, "counters": {"many_arm_cases": 600}}}
ASSUMPTIONS = ["distance == threshold exactly (same scipy values) must warm-start; other comparisons within 1e-9 of equality are not judged",
               "at least two non-zero feature vectors (otherwise the library has no distance to take a quantile of)"]

POLICIES = ["eg", "ucb", "sm", "ts", "pop", "lingreedy", "lints", "linucb"]
SELF = 999999
EXCLUDE = {"sm": {"arm_to_expectation", "arm_to_exponent"}, "pop": {"arm_to_expectation"}, "ts": {"arm_to_expectation"}}
KINDS = ["warm_start", "warm_start", "partial_fit", "partial_fit", "add_arm", "remove_arm", "fit"]


def cosine(u, v):
    """scipy's cosine distance (third-party, the same routine any caller would use), NaN -> 'no distance'.
    Using the very same floating-point values as a direct scipy call makes 'distance == threshold' decidable."""
    from scipy.spatial.distance import cdist
    d = float(cdist(np.asarray([u], dtype=float), np.asarray([v], dtype=float), metric="cosine")[0][0])
    return SELF if math.isnan(d) else d


def flat(v):
    if hasattr(v, "beta"):  # ridge model
        parts = []
        for n in ("beta", "A", "A_inv", "Xty"):
            a = getattr(v, n)
            parts.append((n, None if a is None else np.asarray(a, dtype=float).tobytes()))
        sc = getattr(v, "scaler", None)
        if sc is not None:
            parts.append(("scaler", tuple((n, np.asarray(getattr(sc, n)).tobytes()) for n in ("mean_", "var_", "scale_", "n_samples_seen_")
                                          if hasattr(sc, n))))
        return tuple(parts)
    if isinstance(v, np.ndarray):
        return v.tobytes()
    return repr(v) if not isinstance(v, (int, float, np.generic)) else float(v)


def arm_state(imp, arm, kind):
    out = {}
    for name, val in vars(imp).items():
        if isinstance(val, dict) and name != "arm_to_status" and name not in EXCLUDE.get(kind, ()) and arm in val:
            out[name] = flat(val[arm])
    return out


def all_states(m, kind):
    return {a: arm_state(m._imp, a, kind) for a in m.arms}


def model_ids(m):
    mods = getattr(m._imp, "arm_to_model", None)
    return {a: id(mods[a]) for a in m.arms} if mods else {}


def expect(features, q, trained, cold):
    """reference decision: {cold arm: (set of admissible sources, must/may/mustnot)}"""
    arms = [a for a, _ in features]
    f = dict((a, v) for a, v in features)
    if len(arms) > 40:
        # hundreds of arms: one scipy call for the whole matrix (the same routine, the same per-pair values)
        from scipy.spatial.distance import cdist
        F = np.asarray([f[a] for a in arms], dtype=float)
        M = cdist(F, F, metric="cosine")
        M[np.isnan(M)] = SELF
        np.fill_diagonal(M, SELF)
        dist = {a: dict(zip(arms, (float(v) for v in M[i]))) for i, a in enumerate(arms)}
    else:
        dist = {a: {b: (SELF if a == b else cosine(f[a], f[b])) for b in arms} for a in arms}
    closest = [min(dist[a].values()) for a in arms if min(dist[a].values()) != SELF]
    thr = float(np.quantile(closest, q))
    out = {}
    for c in cold:
        cand = {t: dist[c][t] for t in trained}
        if not cand:
            out[c] = (set(), "mustnot", None, thr)
            continue
        dmin = min(cand.values())
        srcs = {t for t, d_ in cand.items() if d_ <= dmin + 1e-9}
        if dmin == thr:
            verdict = "must"  # "does not exceed the threshold": boundary included
        elif abs(dmin - thr) <= 1e-9:
            verdict = "may"
        else:
            verdict = "must" if dmin < thr else "mustnot"
        out[c] = (srcs, verdict, dmin, thr)
    return out


def run_case(rs, ctx):
    kind = POLICIES[ctx.index % 8]
    labels = gen.pick(rs, ["int", "str", "float"])
    n_arms = int(rs.integers(3, 8))
    many = (ctx.index // 8) % 45 == 7  # hundreds of arms (more than any plausible internal block size)
    cfg = gen.gen_cfg(rs, kind, "none", labels="int" if many else labels, n_arms=n_arms, deterministic=True)
    if many:
        n_arms = 257 + int(rs.integers(0, 80))
        cfg["arms"] = list(range(n_arms))
        ctx.count("many_arm_cases")
    nf = 2
    sh = gen.Shadow(cfg, nf)
    # first fit leaves some arms unobserved
    first = gen.gen_ops(rs, cfg, sh, 1, ["fit"], train_rows=(2 * n_arms, 3 * n_arms) if many else (6, 16))
    keep = [a for a in sh.arms if rs.integers(3) > 0] or [sh.arms[0]]
    first[0]["d"] = [a if a in keep else gen.pick(rs, keep) for a in first[0]["d"]]
    ops = first + gen.gen_ops(rs, cfg, sh, 2 if many else int(rs.integers(2, 9)), KINDS[1:] if many else KINDS, train_rows=(1, 6)) + \
        gen.gen_ops(rs, cfg, sh, 1, ["warm_start"])
    # hostile feature dictionaries: zero vectors and duplicates
    m = gen.build(cfg)
    observed, warm = set(), set()
    special = False
    pattern = []
    for step, op in enumerate(ops):
        k = op["op"]
        wit = {"cfg": cfg, "ops": ops[:step + 1]}
        if k == "warm_start":
            feats = [[a, list(f)] for a, f in op["features"]]
            if many:
                feats = [[a, [float(v) for v in rs.integers(-6, 7, 3)]] for a, _ in feats]
            mode = int(rs.integers(4))
            if mode == 1 and len(feats) > 2:
                feats[int(rs.integers(len(feats)))][1] = [0.0] * len(feats[0][1])
            elif mode == 2 and len(feats) > 2:
                i, j = rs.permutation(len(feats))[:2]
                feats[int(i)][1] = [2.0 * v for v in feats[int(j)][1]]
            if sum(1 for _, f in feats if any(f)) < 2:
                continue
            if rs.integers(5) == 0:
                # cosine distance is scale invariant: tiny (or huge) magnitudes are legal feature vectors
                sc = float(gen.pick(rs, [1e-9, 1e-12, 1e9]))
                feats = [[a, [v * sc for v in f]] for a, f in feats]
            special |= mode in (1, 2)
            op = dict(op, features=feats)
            ops[step] = op
            wit["ops"][-1] = op
            arms = list(m.arms)
            trained = [a for a in arms if a in observed]
            cold = [a for a in arms if a not in observed and a not in warm]
            if list(m.cold_arms) != cold:
                ctx.violation("cold_arms %r before warm_start, ledger of observed/warm arms says %r" % (m.cold_arms, cold), wit, kind="cold_ledger")
                return
            exp = expect(feats, op["q"], trained, cold)
            before = all_states(m, kind)
            # monotonicity in the quantile, on deep copies
            prev = None
            for q_ in ((0.25, 1.0) if many else (0.0, 0.25, 0.5, 0.75, 1.0)):
                mm = copy.deepcopy(m)
                try:
                    mm.warm_start({a: list(f) for a, f in feats}, q_)
                except Exception as ex:  # noqa: BLE001
                    ctx.violation("warm_start(q=%s) raised %s: %s" % (q_, type(ex).__name__, str(ex)[:80]), wit)
                    return
                w = set(cold) - set(mm.cold_arms)
                ctx.ev()
                if prev is not None and not prev <= w:
                    ctx.violation("warm-started set not monotone in the quantile: %r at a smaller quantile, %r at q=%s" % (
                        sorted(prev, key=repr), sorted(w, key=repr), q_), wit, kind="monotone")
                    return
                prev = w
            try:
                gen.apply_op(m, op)
            except Exception as ex:  # noqa: BLE001
                ctx.violation("warm_start raised %s: %s" % (type(ex).__name__, str(ex)[:80]), wit)
                return
            after = all_states(m, kind)
            newly = []
            for a in arms:
                ctx.ev()
                if a not in cold:
                    if after[a] != before[a]:
                        ctx.violation("%s: warm_start changed the learned state of %s arm %r" % (
                            kind, "trained" if a in observed else "already warm-started", a), wit, kind="touched_noncold")
                        return
                    continue
                srcs, verdict, dmin, thr = exp[a]
                is_warm = a not in m.cold_arms
                same_as_src = any(after[a] == before[s] for s in srcs)
                if after[a] == before[a]:
                    # untouched - unless a nearest trained arm's state is indistinguishable from the cold state (e.g. a linear
                    # arm trained on an all-zero context row with lambda = 1): then only the status can tell
                    copied = is_warm if same_as_src else False
                elif same_as_src:
                    copied = True
                else:
                    others = [s for s in trained if after[a] == before[s]]
                    ctx.violation("%s: cold arm %r ended in a state that is neither its old one nor a copy of a nearest trained arm %r "
                                  "(equals state of %r)" % (kind, a, sorted(srcs, key=repr), others), wit, kind="wrong_source")
                    return
                is_warm = a not in m.cold_arms
                if copied != is_warm:
                    ctx.violation("%s: arm %r state %s but cold_arms says it is %s" % (
                        kind, a, "copied" if copied else "untouched", "warm" if is_warm else "cold"), wit, kind="status_mismatch")
                    return
                if verdict == "must" and not copied:
                    ctx.violation("%s: cold arm %r not warm-started although its nearest trained arm is at %.6g <= threshold %.6g" % (
                        kind, a, dmin, thr), wit, kind="missed")
                    return
                if verdict == "mustnot" and copied:
                    ctx.violation("%s: cold arm %r warm-started although %s" % (
                        kind, a, "no trained arm exists" if dmin is None else "its nearest trained arm is at %.6g > threshold %.6g" % (dmin, thr)),
                        wit, kind="overeager")
                    return
                if copied:
                    newly.append(a)
            # aliasing: a warm-started arm must own its state
            ids = model_ids(m)
            if ids and len(set(ids.values())) != len(ids):
                ctx.violation("%s: two arms share one model object after warm_start" % kind, wit, kind="aliased")
                return
            warm |= set(newly)
            # behavioural: deterministic expectations of a copy equal the source's
            if newly and kind in ("eg", "ucb", "lingreedy", "linucb"):
                X = np.asarray(gen.gen_contexts(rs, 2, nf), dtype=float)
                e = m.predict_expectations(X) if gen.is_ctx(cfg) else m.predict_expectations()
                rows = e if isinstance(e, list) else [e]
                for a in newly:
                    ctx.ev()
                    if not any(all(float(r[a]) == float(r[s]) for r in rows) for s in exp[a][0]):
                        ctx.violation("%s: warm-started arm %r does not report its source's expectation: %r" % (kind, a, rows), wit,
                                      kind="behaviour")
                        return
            # idempotence
            snap = all_states(m, kind)
            cold_after = list(m.cold_arms)
            gen.apply_op(m, op)
            ctx.ev()
            if all_states(m, kind) != snap or list(m.cold_arms) != cold_after:
                ctx.violation("%s: repeating the identical warm_start call changed something" % kind, wit, kind="idempotence")
                return
            still_cold = [a for a in cold if a not in newly]
            pattern.append("w%d/%d" % (len(newly), len(still_cold)))
            if (newly and still_cold) or special:
                ctx.nt(kind, n_arms, op["q"], "".join(pattern), "".join(o["op"][0] for o in ops[:step + 1]), special)
            continue
        before = all_states(m, kind) if k == "partial_fit" else None
        try:
            gen.apply_op(m, op)
        except Exception as ex:  # noqa: BLE001
            ctx.violation("%s raised %s: %s" % (gen.short(op), type(ex).__name__, str(ex)[:80]), wit)
            return
        if k == "fit":
            observed, warm = set(op["d"]), set()
        elif k == "partial_fit":
            observed |= set(op["d"])
            # arms not in the batch keep their state (a warm-started arm must not be aliased to its source)
            after = all_states(m, kind)
            for a in m.arms:
                if a not in op["d"] and kind not in ("ucb",):
                    ctx.ev()
                    if after[a] != before[a]:
                        ctx.violation("%s: partial_fit on arms %r changed the state of arm %r (aliased copy?)" % (
                            kind, sorted(set(op["d"]), key=repr), a), wit, kind="aliased_state")
                        return
        elif k == "add_arm":
            pass
        elif k == "remove_arm":
            observed.discard(op["arm"])
            warm.discard(op["arm"])
        ctx.ev()
        want_cold = [a for a in m.arms if a not in observed and a not in warm]
        if list(m.cold_arms) != want_cold:
            ctx.violation("%s after %s: cold_arms %r, ledger of observed/warm arms says %r" % (kind, gen.short(op), m.cold_arms, want_cold),
                          wit, kind="cold_ledger")
            return
    ctx.sample({"cfg": cfg, "ops": [gen.short(o) for o in ops], "warm_calls": pattern})
