"""C14 - a Thompson binarizer is applied to every reward exactly once (twin monitor).

Twin construction per call: bandit A has a binarizer and is fed raw rewards; bandit B has none and is fed
binarizer(decision, reward) computed by the harness with the binarizer *in force at that call* (after
add_arm(arm, new_binarizer) the new one).  Same seed, same call sequence, outputs compared bit-for-bit at
every query.

As built: Extras: rating-like rewards (repeated (decision, reward) pairs across an add_arm), a few 24000-31000-row batches with n_jobs in {2,3,-1}; integer rewards 2^53 + k in int64 arrays with a binarizer that decides on their low bits. A quarter of the training calls pass decisions and rewards as reversed (negative-stride) views. One binarizer is an object whose owner extends its threshold table before every add_arm. Round 8: validating binarizers (thr_strict / inv_strict) refuse one reward of a batch (partial_fit raises), the corrected batch is offered again.
"""
from mon import env  # noqa: F401
import copy

import numpy as np

from mon import binarizers, gen, rngs, twin

ID = "C14"
LEVEL = "exploration"
TECHNIQUE = "runtime twin monitor: binarizer bandit on raw rewards vs plain bandit on harness-converted rewards, bit-exact at every query; defect-aware model as classifier for K3"
RULE = ("ThompsonSampling alone and under Radius/KNearest/LSHNearest/Clusters/TreeBandit x 6 binarizers (arm-dependent "
        "thresholds inside/outside (0,1), inverted, >=0, constant) x rewards in [0,10) x histories fit + partial_fit + add_arm "
        "with/without a new binarizer + remove_arm; non-trivial = binarizer not the identity on {0,1}, or replaced by add_arm "
        "mid-history; distinct = (neighbourhood, binarizer sequence, history skeleton)")
BUDGET = {"quick": {"cases": 6 * 120, "shards": 16}, "thorough": {"cases": 6 * 6000, "shards": 16, "wall_s": 3600}}
MIN = {"quick": {"evaluations": 600, "nontrivial": 100}, "thorough": {"evaluations": 40000, "nontrivial": 6000}}
ASSUMPTIONS = ["binarizers are deterministic functions of (arm, reward) returning 0/1",
               "K3 classifier: a mismatch on TreeBandit is attributed to the known finding only if a defect-aware model (stored "
               "leaf rewards converted a second time with the binarizer in force at prediction) reproduces the observed output exactly"]

NAMES = sorted(binarizers.ALL)
KINDS = ["partial_fit", "partial_fit", "add_arm", "add_arm_b", "remove_arm", "query", "query"]


def conv(fn, d, r):
    return [float(fn(a, v)) for a, v in zip(d, r)]


def k3_model(a0, op, X):
    """what known finding K3 predicts: TreeBandit converts the stored (already converted) leaf rewards again at predict"""
    D = a0
    imp = D._imp
    fn = imp.lp.binarizer
    for arm, leaves in imp.arm_to_leaf_to_rewards.items():
        for leaf in list(leaves.keys()):
            leaves[leaf] = np.asarray([fn(arm, v) for v in leaves[leaf]], dtype=float)
    imp.lp.binarizer = None
    f = getattr(D, op)
    return gen.canon(f(np.asarray(X, dtype=float)))


def run_case(rs, ctx):
    p = gen.NP_KINDS[ctx.index % 6]
    b0 = NAMES[(ctx.index // 6) % len(NAMES)]
    if b0 == "table" and p in ("clusters", "tree"):
        b0 = "thr_inside"  # Clusters copies its learning policy at construction: a table extended later is not seen there (documented copy)
    labels = gen.pick(rs, ["int", "str", "float"])
    n_arms = int(rs.integers(2, 5))
    cfgA = gen.gen_cfg(rs, "ts", p, labels=labels, n_arms=n_arms, binarizer=b0, seed=int(rs.integers(10 ** 6)))
    long_batches = p == "none" and ctx.index % 48 == 0  # a few cases with very long training batches and several jobs
    if long_batches:
        cfgA["n_jobs"], cfgA["backend"] = int(gen.pick(rs, [2, 3, -1])), None
    cfgB = copy.deepcopy(cfgA)
    cfgB["lp"]["binarizer"] = None
    nf = int(gen.pick(rs, [1, 2, 3]))
    sh = gen.Shadow(cfgA, nf)
    binarizers.TABLE.table.clear()
    for a_ in cfgA["arms"]:
        binarizers.TABLE.know(a_)
    A, B = gen.build(cfgA), gen.build(cfgB)
    cur = b0
    used = [b0]
    ops = []
    n_ops = int(rs.integers(4, 12))
    plan = ["fit"] + [gen.pick(rs, KINDS) for _ in range(n_ops)] + ["query"]
    few_values = bool(rs.integers(2))
    big_ints = b0 == "thr_big" and p != "tree" and bool(rs.integers(2))
    if big_ints:
        ctx.count("big_integer_reward_histories")
    replaced = False
    for step, k in enumerate(plan):
        if k in ("fit", "partial_fit"):
            op = gen.gen_ops(rs, cfgA, sh, 1, [k], train_rows=((4, 12) if k == "fit" else (1, 8)) if not long_batches
                             else (24000, 31000))[0]
            if few_values:
                op["r"] = [float(int(v) % 5) for v in op["r"]]  # rating-like rewards: the same (decision, reward) pairs recur
            if big_ints:
                # very large integer rewards in an int64 array: consecutive integers above 2^53 are distinct observations
                op["r"] = [2 ** 53 + int(v) % 7 for v in op["r"]]
                op["r_dtype"] = "int64"
            if rs.integers(4) == 0:
                op["rev_view"] = True  # decisions and rewards arrive as reversed (negative-stride) views of the caller's arrays
                ctx.count("reversed_view_batches")
            opB = dict(op, r=conv(binarizers.ALL[cur], op["d"], op["r"]))
            if k == "partial_fit" and cur in ("thr_strict", "inv_strict") and not big_ints and rs.integers(2) == 0:
                # the same batch is first offered with one reward the owner's binarizer refuses (ValueError out of partial_fit), then
                # corrected and offered again: once the corrected batch is accepted every reward has been converted exactly once
                bad = dict(op, r=list(op["r"]))
                bad["r"][int(rs.integers(len(bad["r"])))] = -1.0
                rbad = gen.run_ops(A, [bad])[0]
                ops.append(dict(bad, expect="raises"))
                ctx.count("refused_batches_offered_again" if isinstance(rbad, list) and rbad[:1] == ["EXC"] else "refused_batch_was_accepted")
        elif k in ("add_arm", "add_arm_b"):
            o = gen.gen_ops(rs, cfgA, sh, 1, ["add_arm"])
            if not o:
                continue
            op = o[0]
            opB = dict(op)
            binarizers.TABLE.know(op["arm"])  # the owner of the threshold table enters the new arm before announcing it
            if k == "add_arm_b":
                nb = "thr_big" if big_ints else gen.pick(rs, [n_ for n_ in NAMES if n_ != "table" or p not in ("clusters", "tree")])
                op = dict(op, binarizer=nb)
                replaced |= nb != cur
                cur = nb
                used.append(nb)
        elif k == "remove_arm":
            o = gen.gen_ops(rs, cfgA, sh, 1, ["remove_arm"])
            if not o:
                continue
            op = opB = o[0]
        else:
            which = gen.pick(rs, ["predict_expectations", "predict_expectations", "predict"])
            o = gen.gen_ops(rs, cfgA, sh, 1, [which], sizes=(1, 2, 3, 5))
            if not o:
                continue
            op = opB = o[0]
        ops.append(op)
        wit = {"cfgA": cfgA, "ops": ops, "binarizer_in_force": cur}
        is_query = op["op"] in ("predict", "predict_expectations")
        a0 = copy.deepcopy(A) if is_query and p == "tree" else None
        ra, rb = gen.run_ops(A, [op])[0], gen.run_ops(B, [opB])[0]
        if not is_query:
            if ra != rb:
                ctx.violation("ts/%s: %s -> %r with a binarizer, %r on the pre-converted twin" % (p, gen.short(op), ra, rb), wit,
                              kind="%s|%s" % (p, op["op"] + ("+binarizer" if op.get("binarizer") else "")))
                return
            continue
        ctx.ev()
        d = twin.first_diff(ra, rb)
        k3_active = False
        if p == "tree":
            data_arms = [a for a, lv in A._imp.arm_to_leaf_to_rewards.items() if len(lv)]
            k3_active = not binarizers.identity_on_binary(binarizers.ALL[cur], data_arms)
        if k3_active and not d:
            # the known finding was in force but the outputs happened to agree (e.g. same arg-max): the two bandits still
            # sampled from different Beta parameters, which consumes a different amount of the stream - re-align the twin
            rngs.graft(A, B)
            ctx.count("k3_active_without_visible_difference")
        if d:
            mech = None
            if p == "tree" and op.get("X") is not None:
                if k3_active:
                    try:
                        if twin.first_diff(k3_model(a0, op["op"], op["X"]), ra) is None:
                            mech = "K3"
                    except Exception:  # noqa: BLE001
                        mech = None
            ctx.violation("ts/%s with binarizer %s: %s differs from the twin fed binarizer(decision, reward): %s" % (
                p, cur, gen.short(op), d), wit, mech=mech, kind="%s|%s" % (p, cur))
            if mech is None:
                return
            # the two bandits drew from different Beta parameters: sampling consumes a parameter-dependent amount of the
            # stream, so re-align the twin's generators before going on (otherwise every later query would differ)
            rngs.graft(A, B)
    ident = all(binarizers.identity_on_binary(binarizers.ALL[b], cfgA["arms"] + sh.arms) for b in used)
    if not ident or replaced:
        ctx.nt(p, "+".join(used), "".join(o["op"][0] for o in ops))
    ctx.sample({"cfg": cfgA, "binarizers": used, "ops": [gen.short(o) + ("+binarizer=%s" % o["binarizer"] if o.get("binarizer") else "") for o in ops]})
