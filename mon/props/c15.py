"""C15 - the Simulator reports what the public API would have produced (history + model).

For every bandit handed to a Simulator run, a deep copy of the *original* bandit (taken before the run) is
driven through the public API by mon.oracles.simreplay with the same split and protocol; the reported
predictions must be equal, and the reported expectations too for policies whose expectations are
deterministic.  The split itself is cross-checked against an independent computation.

As built: Half of the simulations with contexts run under the guarded source hook MABWISER_VERIF_GB_SCALE, which makes the simulator process test rows / batches in chunks of 1-5 rows (the > 1 GB regime); the replay then applies the per-step protocol per chunk. The thorough tier adds one genuine > 1 GB simulation (102000 rows). Neighbourhood bandits may share a metric (shared distance cache) and carry no_nhood_prob_of_arm. A quarter of the Radius / KNearest / LSHNearest bandits of a simulation use 2-4 worker threads (the simulation then runs with the GIL handed over every microsecond); labels include large integral floats; radii sit exactly on, or a hair below, a row-to-row distance. A quarter of the Radius / KNearest bandits use the standardised euclidean metric; test sizes include values for which 1 - test_size is inexact in binary (0.8, 0.9, 0.55, 0.15, 0.2) with row counts that make n * test_size whole. Round 8: a quarter of the simulations hand in bandits that were trained and queried before; half of the simulated Thompson bandits carry a binarizer; one simulation in eight is context-free only.
"""
from mon import env  # noqa: F401
import copy
import math

import numpy as np

from mon import gen, simgen
from mon.oracles import simreplay

ID = "C15"
LEVEL = "exploration"
TECHNIQUE = "runtime monitor: Simulator outputs vs an independent public-API replay on deep copies of the original bandits (same split, same protocol, same random-stream discipline)"
RULE = ("simulations with 2-5 bandits drawn from all 48 policy combinations (in half of them at least two Radius/KNearest "
        "bandits with different metrics), 24-60 rows, test_size in {.1,.25,.3,.5,.7}, ordered/random split, batch_size in "
        "{0,1,2,3,7,|test|-1,|test|}, is_quick, seeds; one oracle evaluation per bandit run. Non-trivial = a neighbourhood "
        "bandit that is not the first of its kind in the simulation (receives the shared distance cache), or an online run "
        "with a ragged last batch; distinct = (combo, position, metric, batch size, test size, ordered)")
BUDGET = {"quick": {"cases": 256, "shards": 16}, "thorough": {"cases": 6000, "shards": 16, "wall_s": 3600}}
MIN = {"quick": {"evaluations": 150, "nontrivial": 25, "counters": {"empty_nhood_rows_with_own_distribution": 40, "multi_chunk_simulations": 8}},
       "thorough": {"evaluations": 5000, "nontrivial": 800, "counters": {"empty_nhood_rows_with_own_distribution": 1500, "multi_chunk_simulations": 300}}}
ASSUMPTIONS = ["context-free bandits are replayed with one predict() per test row, contextual ones with one call per batch",
               "an empty-neighbourhood row reported as {} by the simulator is accepted for the all-NaN row of the API",
               "expectations are compared only for EpsilonGreedy(0), UCB1, LinUCB, LinGreedy(0) (and the stored table of context-free policies)"]

DET = {"ucb", "linucb"}


def det_expectations(cfg):
    k = cfg["lp"]["kind"]
    if k in DET:
        return True
    if k in ("eg", "lingreedy") and cfg["lp"]["epsilon"] == 0:
        return True
    return False


def same_row(a, b, tol):
    if list(a.keys()) != list(b.keys()):
        return False
    for k in a:
        x, y = float(a[k]), float(b[k])
        if math.isnan(x) or math.isnan(y):
            if not (math.isnan(x) and math.isnan(y)):
                return False
        elif abs(x - y) > tol * (1 + abs(y)):
            return False
    return True


def run_case(rs, ctx):
    big = ctx.tier == "thorough" and ctx.index == 0
    spec = simgen.gen_big_simulation(rs, is_quick=True) if big else simgen.gen_simulation(rs, force_empty=(ctx.index % 4 == 1), data_metrics=True)
    if big:
        ctx.count("multi_chunk_simulations")
    p = spec["params"]
    bandits = [("b%d" % i, gen.build(c)) for i, c in enumerate(spec["cfgs"])]
    if not big and ctx.index % 4 == 2:
        # bandits that were already used before they are handed to the Simulator (trained on some rows and queried, so their random
        # streams have advanced): the reference is still a deep copy of the bandit as handed in
        used = []
        for (name, m), c in zip(bandits, spec["cfgs"]):
            if rs.integers(3) == 0:
                used.append((name, m))
                continue
            k_ = min(len(spec["d"]), 16)
            try:
                if gen.is_ctx(c):
                    Xw = np.asarray(spec["X"][:k_], dtype=float)
                    m.fit(np.asarray(spec["d"][:k_]), np.asarray(spec["r"][:k_], dtype=float), Xw)
                    m.predict(Xw[:3])
                else:
                    m.fit(np.asarray(spec["d"][:k_]), np.asarray(spec["r"][:k_], dtype=float))
                    m.predict()
                ctx.count("bandits_used_before_the_simulation")
            except Exception:  # noqa: BLE001 - the warm-up rows do not suit this configuration: hand in a fresh bandit instead
                m = gen.build(c)
            used.append((name, m))
        bandits = used
    twins = {name: copy.deepcopy(m) for name, m in bandits}
    wit = {"simulation": {k: spec[k] for k in ("cfgs", "d", "r", "X", "params")}} if not big else \
        {"simulation": {"cfgs": spec["cfgs"], "params": p, "data": "gen_big_simulation (102000 rows, regenerated from the case index)"}}
    try:
        sim = simgen.run_simulator(spec, list(bandits))
    except Exception as ex:  # noqa: BLE001
        ctx.violation("Simulator.run raised %s: %s" % (type(ex).__name__, str(ex)[:120]), wit, kind="simulator_raised")
        return
    n = len(spec["d"])
    if spec.get("threaded"):
        ctx.count("threaded_simulations")
    if 0 < spec.get("chunk_size_used", 0) < spec["n_test"]:
        ctx.count("multi_chunk_simulations")
    want_idx = simreplay.expected_split(n, p["test_size"], p["is_ordered"], p["seed"])
    ctx.ev()
    if [int(i) for i in sim.test_indices] != [int(i) for i in want_idx]:
        ctx.violation("test_indices %r differ from the documented split %r" % (list(sim.test_indices)[:10], want_idx[:10]), wit, kind="split")
        return
    test_idx = [int(i) for i in sim.test_indices]
    train_idx = [i for i in range(n) if i not in set(test_idx)] if p["is_ordered"] else None
    d = np.asarray(spec["d"])
    r = np.asarray(spec["r"], dtype=float)
    X = None if spec["X"] is None else np.asarray(spec["X"], dtype=float)
    if p["is_ordered"]:
        tr_i = train_idx
    else:
        from sklearn.model_selection import train_test_split
        tr_i, _ = train_test_split(list(range(n)), test_size=p["test_size"], random_state=p["seed"])
    train = (d[tr_i], r[tr_i], None if X is None else X[tr_i])
    test = (d[test_idx], r[test_idx], None if X is None else X[test_idx])
    seen_nn = 0
    bs = p["batch_size"]
    ragged = bs > 0 and len(test_idx) % bs != 0
    for pos, ((name, _), cfg) in enumerate(zip(bandits, spec["cfgs"])):
        kind = cfg["np"]["kind"]
        ctxual = gen.is_ctx(cfg)
        tw = twins[name]
        t = (train[0], train[1], train[2] if ctxual else None)
        te = (test[0], test[1], test[2] if ctxual else None)
        try:
            preds, exps = simreplay.replay(tw, kind, t, te, bs, spec.get("chunk_size_used"))
        except Exception as ex:  # noqa: BLE001
            ctx.count("replay_raised_" + type(ex).__name__)
            continue
        ctx.ev()
        if ctxual and cfg["np"].get("probs") and isinstance(exps, list):
            # rows the API answers from the bandit's own empty-neighbourhood distribution
            ctx.count("empty_nhood_rows_with_own_distribution",
                      sum(1 for e_ in exps if e_ and all(math.isnan(float(v)) for v in e_.values())))
        got = list(sim.bandit_to_predictions[name])
        w = dict(wit, bandit=name, cfg=cfg)
        feat = []
        if kind in ("radius", "knn"):
            seen_nn += 1
            if seen_nn > 1:
                feat.append("cache_receiver")
        if ragged:
            feat.append("ragged")
        if len(got) != len(test_idx):
            ctx.violation("%s (%s): %d predictions reported for %d test rows" % (name, gen.cfg_sig(cfg), len(got), len(test_idx)), w,
                          kind="count|" + gen.cfg_sig(cfg))
            return
        bad = [i for i, (a, b) in enumerate(zip(got, preds)) if not (a == b and type(a) is type(b))]
        if bad:
            ctx.violation("%s (%s%s, position %d of %d, batch_size=%d, ordered=%s): reported predictions differ from the public-API "
                          "replay at %d of %d test rows (first: row %d simulator %r, API %r)" % (
                              name, gen.cfg_sig(cfg), " " + cfg["np"].get("metric", "") if cfg["np"].get("metric") else "", pos,
                              len(bandits), bs, p["is_ordered"], len(bad), len(got), bad[0], got[bad[0]], preds[bad[0]]),
                          w, kind="pred|%s|%s" % (gen.cfg_sig(cfg), ",".join(feat)))
            return
        if det_expectations(cfg) or (not ctxual and cfg["lp"]["kind"] in ("sm", "pop")):
            rep = sim.bandit_to_expectations[name]
            tol = 1e-9 if gen.is_linear(cfg) else 1e-12
            rep_rows = rep if isinstance(rep, list) else [rep]
            api_rows = exps if isinstance(exps, list) else [exps]
            ok = len(rep_rows) == len(api_rows)
            where = None
            if ok:
                for i, (a, b) in enumerate(zip(rep_rows, api_rows)):
                    if a == {} and all(math.isnan(float(v)) for v in b.values()):
                        ctx.count("empty_rows_reported_as_empty_dict")
                        continue
                    if not same_row(a, b, tol):
                        ok, where = False, (i, a, b)
                        break
            ctx.ev()
            if not ok:
                ctx.violation("%s (%s): reported expectations differ from the public-API replay: %s" % (
                    name, gen.cfg_sig(cfg), "%d rows vs %d" % (len(rep_rows), len(api_rows)) if where is None else
                    "row %d simulator %r, API %r" % where), w, kind="exp|" + gen.cfg_sig(cfg))
                return
        if feat:
            ctx.nt(gen.cfg_sig(cfg), pos, cfg["np"].get("metric"), bs, p["test_size"], p["is_ordered"], ",".join(feat))
    ctx.sample({"bandits": [gen.cfg_sig(c) + (":" + c["np"]["metric"] if c["np"].get("metric") else "") for c in spec["cfgs"]],
                "rows": n, "params": p})
