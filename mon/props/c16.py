"""C16 - Simulator bookkeeping is a faithful account of the data (conservation checker over public attributes).

After Simulator.run() the checker recomputes, with plain NumPy over the simulator's *inputs*: the split
(indices unique, in range, the tail when ordered, complement = training rows), one prediction per test row,
the per-arm statistics of total / train / test (count, sum, min, max, mean, std) and their conservation
(train + test = total), and the default evaluation for the min / mean / max analyses: observed reward where
prediction == logged decision, else the predicted arm's training statistic (or, for neighbourhood simulators
with is_quick=False, the row's neighbourhood statistic when it has one); evaluated counts must sum to the
number of (batch / test) rows and the analyses must be ordered.

As built: Neighbourhood records and sizes of Radius / KNearest simulators are recomputed independently in exact integer arithmetic from the inputs (history = training rows + earlier batches); a record counts as a neighbourhood statistic only if it holds observations. Multi-chunk runs through the GB-scale hook; one genuine > 1 GB simulation in the thorough tier. A sixth of the simulations have an arm that never occurs in the logged data; labels include large integral floats; radii on / a hair below row distances; threaded neighbourhood bandits as in C15. Test sizes as in C15 (incl. pairs (n, test_size) for which int(n * (1 - test_size)) and n - ceil(n * test_size) differ).
"""
from mon import env  # noqa: F401
import math

import numpy as np

from mon import gen, simgen

ID = "C16"
LEVEL = "exploration"
TECHNIQUE = "runtime conservation checker: public attributes of Simulator after run() vs direct NumPy recomputation from the inputs"
RULE = ("simulations as for C15 (2-5 bandits of any combination, 20-200 rows, all split / batch / is_quick settings) plus "
        "data sets with an arm present only in the first or last row (absent from train or test under an ordered split); "
        "non-trivial = an arm missing from the training or test split, or a batch size that does not divide |test|; "
        "distinct = (rows, test size, ordered, batch size, is_quick, feature)")
BUDGET = {"quick": {"cases": 288, "shards": 16}, "thorough": {"cases": 6000, "shards": 16, "wall_s": 3600}}
MIN = {"quick": {"evaluations": 1500, "nontrivial": 30}, "thorough": {"evaluations": 50000, "nontrivial": 900}}
ASSUMPTIONS = ["int / str arm labels (sklearn's confusion_matrix, used by the Simulator, rejects float class labels)",
               "neighbourhood statistics are taken from the public attribute bandit_to_arm_to_stats_neighborhoods",
               "a simulation in which a bandit predicts an arm that has no training rows and the logged decision differs has no "
               "documented training statistic to credit: such runs are counted and not judged if the Simulator raises KeyError"]

STATS = ("count", "sum", "min", "max", "mean", "std")


def stats(x):
    x = np.asarray(x, dtype=float)
    return {"count": int(x.size), "sum": float(x.sum()), "min": float(x.min()), "max": float(x.max()),
            "mean": float(x.mean()), "std": float(x.std())}


def close(a, b):
    if isinstance(a, float) and math.isnan(a) or isinstance(b, float) and math.isnan(b):
        return (isinstance(a, float) and math.isnan(a)) and (isinstance(b, float) and math.isnan(b))
    return abs(float(a) - float(b)) <= 1e-9 * (1 + abs(float(b)))


def check_stats(ctx, name, got, arms, d, r, wit):
    for a in arms:
        ctx.ev()
        rows = r[d == a]
        g = got.get(a)
        if rows.size == 0:
            # no rows: count (and sum) must be zero, the other statistics are undefined
            if g not in ({}, None) and (g.get("count", 0) != 0 or g.get("sum", 0) != 0):
                ctx.violation("%s: arm %r has no rows but statistics %r" % (name, a, g), wit, kind="stats_" + name)
                return False
            continue
        w = stats(rows)
        if not g or any(not close(g[k], w[k]) for k in STATS):
            ctx.violation("%s: arm %r reported %r, direct recomputation %r" % (name, a, g, w), wit, kind="stats_" + name)
            return False
    return True


def evaluate(arms, decisions, rewards, preds, train_stats, stat, nbhd, start):
    out = {a: [] for a in arms}
    for i, p in enumerate(preds):
        if p == decisions[i]:
            out[p].append(rewards[i])
        else:
            row = nbhd[start + i] if nbhd is not None and start + i < len(nbhd) else None
            # "the predicted arm's neighbourhood statistic" exists only if that arm has observations in the row's
            # neighbourhood: an empty or zero-count record is no statistic and the training statistic applies
            if row and row.get(p) and row[p].get("count", 0) > 0:
                out[p].append(row[p][stat])
            else:
                out[p].append(train_stats[p][stat])
    return out


def check_eval(ctx, label, reported, arms, decisions, rewards, preds, train_stats, nbhd, start, wit):
    """reported: {'min': {...}, 'mean': {...}, 'max': {...}} per arm stats of the three analyses"""
    n = len(preds)
    sums = {}
    for an, stat in (("min", "min"), ("avg", "mean"), ("max", "max")):
        ctx.ev()
        rep = reported[an]
        try:
            want = evaluate(arms, decisions, rewards, preds, train_stats, stat, nbhd, start)
        except KeyError:
            ctx.count("evaluation_undefined_no_training_statistic")
            return True
        total = 0
        for a in arms:
            g = rep[a]
            w = want[a]
            total += g["count"]
            if g["count"] != len(w):
                ctx.violation("%s %s-analysis: arm %r evaluated on %d rows, recomputation %d" % (label, an, a, g["count"], len(w)), wit,
                              kind="eval_count")
                return False
            if w:
                ws = stats(w)
                if any(not close(g[k], ws[k]) for k in STATS):
                    ctx.violation("%s %s-analysis: arm %r reported %r, recomputation %r" % (label, an, a, g, ws), wit, kind="eval_value")
                    return False
                sums[(an, a)] = ws["sum"]
            elif not math.isnan(g["sum"]):
                ctx.violation("%s %s-analysis: arm %r never predicted but sum %r" % (label, an, a, g["sum"]), wit, kind="eval_value")
                return False
        if total != n:
            ctx.violation("%s %s-analysis: evaluated counts sum to %d, there are %d rows" % (label, an, total, n), wit, kind="eval_conservation")
            return False
    for a in arms:
        if ("min", a) in sums:
            if not (sums[("min", a)] <= sums[("avg", a)] + 1e-9 and sums[("avg", a)] <= sums[("max", a)] + 1e-9):
                ctx.violation("%s: arm %r analyses not ordered: min %r, mean %r, max %r" % (
                    label, a, sums[("min", a)], sums[("avg", a)], sums[("max", a)]), wit, kind="eval_order")
                return False
    return True


def check_neighbourhood_records(ctx, label, cfg, nbhd, sizes, arms, spec, tr, ti, bs, wit):
    """independent recomputation of the per-row neighbourhood records of a Radius / KNearest simulator from the inputs:
    the history a test row sees is the training rows plus (online) every earlier batch; neighbours are selected in exact
    integer arithmetic (mon.oracles.nhood); per arm the record must be the statistics of exactly those rewards, or empty"""
    from fractions import Fraction
    from mon.oracles import nhood
    metric = cfg["np"]["metric"]
    X, d, r = spec["X"], spec["d"], spec["r"]
    if len(nbhd) != len(ti) or len(sizes) != len(ti):
        ctx.violation("%s: %d neighbourhood records / %d sizes for %d test rows" % (label, len(nbhd), len(sizes), len(ti)), wit,
                      kind="nbhd_count")
        return False
    for j, row_index in enumerate(ti):
        seen = list(tr) + (list(ti[:(j // bs) * bs]) if bs > 0 else [])
        hist = [X[i] for i in seen]
        if cfg["np"]["kind"] == "radius":
            if cfg["np"].get("radius_key") is not None:
                key = Fraction(cfg["np"]["radius_key"])  # radius placed exactly on a row-to-row distance: its exact integer key
            else:
                rad = Fraction(cfg["np"]["radius"])
                key = rad * rad if metric == "euclidean" else rad
            idx = nhood.radius_rows(metric, hist, X[row_index], key)
        else:
            cands, tie = nhood.knn_completions(metric, hist, X[row_index], cfg["np"]["k"])
            if cands is None or tie:
                ctx.count("nbhd_rows_with_knn_tie_not_judged")
                if sizes[j] != cfg["np"]["k"]:
                    ctx.violation("%s: test row %d: neighbourhood size %r, k = %d" % (label, j, sizes[j], cfg["np"]["k"]), wit, kind="nbhd_size")
                    return False
                continue
            idx = cands[0]
        ctx.ev()
        ctx.count("nbhd_records_recomputed")
        if sizes[j] != len(idx):
            ctx.violation("%s: test row %d: reported neighbourhood size %r, exact recomputation %d" % (label, j, sizes[j], len(idx)), wit,
                          kind="nbhd_size")
            return False
        rec = nbhd[j] or {}
        for a in arms:
            rw = [r[seen[i]] for i in idx if d[seen[i]] == a]
            g = rec.get(a) or {}
            if not rw:
                if g and g.get("count", 0) != 0:
                    ctx.violation("%s: test row %d arm %r: neighbourhood record %r but the arm has no neighbour" % (label, j, a, g), wit,
                                  kind="nbhd_record")
                    return False
                continue
            w = stats(rw)
            if not g or any(not close(g[k], w[k]) for k in STATS):
                ctx.violation("%s: test row %d arm %r: neighbourhood record %r, recomputation from the %d neighbours %r" % (
                    label, j, a, g, len(idx), w), wit, kind="nbhd_record")
                return False
    return True


def run_case(rs, ctx):
    absent = ctx.index % 3 == 0
    big = ctx.tier == "thorough" and ctx.index == 1
    if big:
        spec = simgen.gen_big_simulation(rs, is_quick=False)
        ctx.count("multi_chunk_simulations")
    else:
        spec = simgen.gen_simulation(rs, n_rows=(20, 200) if ctx.index % 4 == 0 else (20, 70),
                                     absent_arm=("never" if ctx.index % 6 == 3 else True) if absent else False)
    if absent and not big:
        spec["params"]["is_ordered"] = True

    p = spec["params"]
    bandits = [("b%d" % i, gen.build(c)) for i, c in enumerate(spec["cfgs"])]
    wit = {"simulation": {k: spec[k] for k in ("cfgs", "d", "r", "X", "params")}} if not big else \
        {"simulation": {"cfgs": spec["cfgs"], "params": spec["params"], "data": "gen_big_simulation (102000 rows, regenerated from the case index)"}}
    try:
        sim = simgen.run_simulator(spec, list(bandits))
    except KeyError as ex:
        ctx.count("simulator_keyerror_no_training_statistic")
        wit["exception"] = repr(ex)
        ctx.sample({"note": "Simulator raised KeyError (predicted arm without training rows)", "params": p})
        return
    except Exception as ex:  # noqa: BLE001
        ctx.violation("Simulator.run raised %s: %s" % (type(ex).__name__, str(ex)[:120]), wit, kind="simulator_raised")
        return
    if 0 < spec.get("chunk_size_used", 0) < spec["n_test"]:
        ctx.count("multi_chunk_simulations")
    arms = spec["arms"]
    d = np.asarray(spec["d"])
    r = np.asarray(spec["r"], dtype=float)
    n = len(d)
    ti = [int(i) for i in sim.test_indices]
    n_test_want = n - int(n * (1 - p["test_size"])) if p["is_ordered"] else math.ceil(n * p["test_size"])
    ctx.ev()
    if len(set(ti)) != len(ti) or any(i < 0 or i >= n for i in ti) or len(ti) != n_test_want:
        ctx.violation("test indices %r...: duplicates / out of range / %d instead of %d rows" % (ti[:8], len(ti), n_test_want), wit, kind="split")
        return
    if p["is_ordered"] and ti != list(range(n - len(ti), n)):
        ctx.violation("ordered split: test indices %r are not the last %d rows" % (ti[:8], len(ti)), wit, kind="split_tail")
        return
    tr = [i for i in range(n) if i not in set(ti)]
    dtr, rtr, dte, rte = d[tr], r[tr], d[ti], r[ti]
    if not (check_stats(ctx, "total", sim.arm_to_stats_total, arms, d, r, wit)
            and check_stats(ctx, "train", sim.arm_to_stats_train, arms, dtr, rtr, wit)
            and check_stats(ctx, "test", sim.arm_to_stats_test, arms, dte, rte, wit)):
        return
    for a in arms:
        ctx.ev()
        t, a1, a2 = sim.arm_to_stats_total.get(a) or {}, sim.arm_to_stats_train.get(a) or {}, sim.arm_to_stats_test.get(a) or {}
        c = a1.get("count", 0) + a2.get("count", 0)
        s = a1.get("sum", 0.0) + a2.get("sum", 0.0)
        if c != t.get("count", 0) or not close(s, t.get("sum", 0.0)):
            ctx.violation("arm %r: train + test = (%d, %r) but total = (%r, %r)" % (a, c, s, t.get("count"), t.get("sum")), wit, kind="conservation")
            return
    # arms without training rows: the statistic the simulator itself reports for them (checked above to be a zero-count
    # record) is what "the predicted arm's training statistic" can only mean
    train_stats = {a: (stats(rtr[dtr == a]) if (dtr == a).any() else dict(sim.arm_to_stats_train.get(a) or {})) for a in arms}
    bs = p["batch_size"]
    for (name, _), cfg in zip(bandits, spec["cfgs"]):
        preds = list(sim.bandit_to_predictions[name])
        ctx.ev()
        if len(preds) != len(ti):
            ctx.violation("%s (%s): %d predictions for %d test rows" % (name, gen.cfg_sig(cfg), len(preds), len(ti)), wit, kind="pred_count")
            return
        if any(x not in arms for x in preds):
            ctx.violation("%s (%s): a reported prediction is not an arm" % (name, gen.cfg_sig(cfg)), wit, kind="pred_member")
            return
        nn = cfg["np"]["kind"] in ("radius", "knn", "lsh")
        nbhd = list(sim.bandit_to_arm_to_stats_neighborhoods[name]) if nn and not p["is_quick"] else None
        if nbhd is not None and big:
            ctx.ev()
            if len(nbhd) != len(ti) or len(sim.bandit_to_neighborhood_size[name]) != len(ti):
                ctx.violation("%s (%s): %d neighbourhood records / %d sizes for %d test rows" % (
                    name, gen.cfg_sig(cfg), len(nbhd), len(sim.bandit_to_neighborhood_size[name]), len(ti)), dict(wit, bandit=name),
                    kind="nbhd_count")
                return
        if nbhd is not None and not big and cfg["np"]["kind"] in ("radius", "knn") and spec["X"] is not None:
            if not check_neighbourhood_records(ctx, "%s (%s)" % (name, gen.cfg_sig(cfg)), cfg, nbhd,
                                               list(sim.bandit_to_neighborhood_size[name]), arms, spec, tr, ti, bs, dict(wit, bandit=name)):
                return
        mn, av, mx = sim.bandit_to_arm_to_stats_min[name], sim.bandit_to_arm_to_stats_avg[name], sim.bandit_to_arm_to_stats_max[name]
        label = "%s (%s)" % (name, gen.cfg_sig(cfg))
        w = dict(wit, bandit=name)
        if bs == 0:
            if not check_eval(ctx, label, {"min": mn, "avg": av, "max": mx}, arms, dte, rte, preds, train_stats, nbhd, 0, w):
                return
        else:
            n_batches = math.ceil(len(ti) / bs)
            keys = list(mn.keys())
            if keys != list(range(n_batches)) + ["total"]:
                ctx.violation("%s: evaluation batches %r, expected 0..%d and 'total'" % (label, keys, n_batches - 1), w, kind="eval_batches")
                return
            for b in range(n_batches):
                s, e = b * bs, min((b + 1) * bs, len(ti))
                if not check_eval(ctx, "%s batch %d" % (label, b), {"min": mn[b], "avg": av[b], "max": mx[b]}, arms, dte[s:e], rte[s:e],
                                  preds[s:e], train_stats, nbhd, s, w):
                    return
            if not check_eval(ctx, label + " total", {"min": mn["total"], "avg": av["total"], "max": mx["total"]}, arms, dte, rte, preds,
                              train_stats, nbhd, 0, w):
                return
    feats = []
    if any(not (dtr == a).any() for a in arms):
        feats.append("arm_absent_from_train")
    if any(not (dte == a).any() for a in arms):
        feats.append("arm_absent_from_test")
    if bs > 0 and len(ti) % bs:
        feats.append("ragged")
    if feats:
        ctx.nt(n, p["test_size"], p["is_ordered"], bs, p["is_quick"], ",".join(feats))
    ctx.sample({"rows": n, "params": p, "bandits": [gen.cfg_sig(c) for c in spec["cfgs"]], "features": feats})
