"""C17 - a rejected call changes nothing (fault enumeration + twin monitor).

Every class of the rejected-call catalogue (mon.faults) is instantiated from a live bandit at a position of a
valid history; a deep copy T is taken just before the call.  If the library raises, the monitor requires
(1) the arm list unchanged and (2) a seeded continuation - always with a partial_fit and both kinds of query
- to give bit-identical outputs on the bandit and on T *without* any generator grafting, so a rejected call
that consumed randomness or left a half-published history is seen.  Calls that are not rejected are counted
and excluded.  Constructor rejections: the caller's objects and a bystander bandit must be untouched.

As built: Catalogue extras: fit / first partial_fit with fewer rows than clusters, singular normal matrix with l2_lambda=0 (fit and partial_fit); continuations of never-fitted bandits may start with partial_fit. Round 4/5 classes: add_arm rejected for its arm while carrying a valid binarizer, a singular refit of another width, a row [2^30, ...] that swallows the ridge term (any l2_lambda); every continuation of a contextual bandit starts with two Series probes. Interpreter-wide state must be unchanged by every rejected call; every continuation starts with a cold_arms probe; the huge-row class carries ordinary rows of the other arms. Round 8: fault class fit / partial_fit:binarizer_raises (user callback fails inside the call); known finding K7 with a defect-aware model.
"""
from mon import env  # noqa: F401
import copy
import hashlib

import numpy as np
import pickle

from mabwiser.mab import MAB
from mon import faults, gen, twin, contracts, rngs

ID = "C17"
LEVEL = "fault_enumeration"
TECHNIQUE = "fault injection at the API boundary: enumerated catalogue of rejected-call classes x history positions, twin comparison of continuations against a pre-call deep copy"
CAT = faults.catalogue()
CTOR = faults.ctor_catalogue()
NC = len(CAT)
POSITIONS = ["before_fit", "after_fit", "after_partial_fit", "after_arm_change", "after_warm_start_or_queries"]
RULE = ("catalogue of %d rejected-call classes (fit/partial_fit/add_arm/remove_arm/warm_start/predict/predict_expectations; "
        "layers facade/convert/inside) x 48 policy combinations x history positions %s, plus %d constructor rejections x "
        "bystander bandits; the class x combination grid is enumerated completely, positions rotate, continuations are "
        "sampled; non-trivial = class raised below the facade validation (layer convert/inside); distinct = (class, combo, position)"
        % (NC, POSITIONS, len(CTOR)))
ROUNDS = {"quick": 2, "thorough": 20}
BUDGET = {"quick": {"cases": 48 * NC * 2 + len(CTOR) * 4, "shards": 8},
          "thorough": {"cases": 48 * NC * 20 + len(CTOR) * 40, "shards": 16, "wall_s": 3600}}
MIN = {"quick": {"evaluations": 2000, "nontrivial": 200, "counters": {"rejected_calls": 2000, "ctor_rejected": 60}},
       "thorough": {"evaluations": 20000, "nontrivial": 2000, "counters": {"rejected_calls": 20000, "ctor_rejected": 600}}}
ASSUMPTIONS = ["a call counts as rejected iff it raises; calls of a catalogue class the library accepts are excluded (counted)",
               "predict* with a wrong feature count is included although only the 'nothing changes' half of the statement applies"]
EXHAUSTIVE_NOTE = "class x policy-combination grid enumerated completely in both tiers; positions and continuations sampled"


def digest(m):
    return hashlib.sha256(pickle.dumps(m, 5)).hexdigest()


def run_ctor(rs, ctx, j):
    name, mk = CTOR[j % len(CTOR)]
    l, p = gen.ALL_COMBOS[int(rs.integers(48))]
    cfg = gen.gen_cfg(rs, l, p, n_arms=3)
    sh = gen.Shadow(cfg, 2)
    hist = gen.gen_ops(rs, cfg, sh, 1, ["fit"], train_rows=(5, 10))
    B = gen.build(cfg)
    gen.run_ops(B, hist)
    T = copy.deepcopy(B)
    arms, lp, np_, kw = mk()
    before = [contracts.snap(arms), contracts.snap(tuple(lp) if isinstance(lp, tuple) else lp),
              contracts.snap(tuple(np_) if isinstance(np_, tuple) else np_)]
    dB = digest(B)
    try:
        MAB(arms, lp, np_, **kw)
    except Exception as ex:  # noqa: BLE001
        exn = type(ex).__name__
    else:
        ctx.count("not_rejected:" + name)
        return
    ctx.count("ctor_rejected")
    ctx.ev()
    wit = {"class": name, "exception": exn, "bystander": cfg}
    after = [contracts.snap(arms), contracts.snap(tuple(lp) if isinstance(lp, tuple) else lp),
             contracts.snap(tuple(np_) if isinstance(np_, tuple) else np_)]
    if before != after:
        ctx.violation("%s: rejected constructor call modified the caller's arguments" % name, wit)
        return
    if digest(B) != dB:
        ctx.violation("%s: rejected constructor call changed the state of another live bandit" % name, wit)
        return
    cont = gen.gen_continuation(rs, cfg, sh, n_ops=2)
    d = twin.first_diff(gen.run_ops(B, cont), gen.run_ops(T, cont))
    if d:
        ctx.violation("%s: after a rejected constructor call a bystander bandit behaves differently: %s" % (name, d), wit)
        return
    ctx.nt(name, "ctor", gen.cfg_sig(cfg))


def _ts_lps(m):
    imp = m._imp
    return [x for x in [getattr(imp, "lp", None)] + list(getattr(imp, "lp_list", None) or []) + [imp]
            if x is not None and hasattr(x, "is_contextual_binarized")]


def k7_explains(M0, T0, cont, which):
    """defect-aware model of known finding K7: undo exactly what K7 describes on a copy of the bandit as the failed call left it
    (raise the conversion flags it lowered; for fit: put back the history arrays / trees it replaced before converting) and run
    the continuation again - K7 explains the witness iff something was undone and the repaired copy then equals the pre-call copy"""
    undone = 0
    for a, b in zip(_ts_lps(M0), _ts_lps(T0)):
        if a.is_contextual_binarized != b.is_contextual_binarized:
            a.is_contextual_binarized = b.is_contextual_binarized
            undone += 1
    if which == "fit":
        im, it = M0._imp, T0._imp
        if hasattr(im, "decisions") and hasattr(im, "rewards") and im.decisions is not None and it.decisions is not None and \
                (len(im.decisions) != len(it.decisions) or not np.array_equal(np.asarray(im.decisions), np.asarray(it.decisions))) and \
                np.array_equal(np.asarray(im.rewards), np.asarray(it.rewards)):
            im.decisions, im.contexts = copy.deepcopy(it.decisions), copy.deepcopy(it.contexts)
            undone += 1
        if hasattr(im, "arm_to_leaf_to_rewards") and all(len(v) == 0 for v in im.arm_to_leaf_to_rewards.values()) and \
                any(len(v) > 0 for v in it.arm_to_leaf_to_rewards.values()):
            im.arm_to_tree, im.arm_to_leaf_to_rewards = copy.deepcopy(it.arm_to_tree), copy.deepcopy(it.arm_to_leaf_to_rewards)
            undone += 1
    if not undone:
        return False
    return not twin.first_diff(gen.run_ops(M0, cont), gen.run_ops(T0, cont))


def run_case(rs, ctx):
    grid = 48 * NC
    rounds = ROUNDS[ctx.tier]
    if ctx.index >= grid * rounds:
        return run_ctor(rs, ctx, ctx.index - grid * rounds)
    l, p = gen.ALL_COMBOS[ctx.index % 48]
    ci = (ctx.index // 48) % NC
    rnd = ctx.index // grid
    pos = POSITIONS[(rnd * 2 + ci + ctx.index % 48) % 5]
    name, layer, applies, make = CAT[ci]
    binz = gen.pick(rs, [None, None, "thr_inside"]) if l == "ts" and "nonbinary" not in name else None
    if l == "ts" and name.endswith(":binarizer_raises"):
        binz = gen.pick(rs, ["thr_strict", "inv_strict"])
    cfg = gen.gen_cfg(rs, l, p, labels=gen.pick(rs, ["int", "str", "float"]), n_arms=int(rs.integers(2, 5)), binarizer=binz)
    nf = int(gen.pick(rs, [2, 3]))
    if name in ("partial_fit:singular_l2_zero", "fit:singular_l2_zero", "fit:singular_other_width") and cfg["lp"]["kind"] in ("lingreedy", "linucb"):
        cfg["lp"]["l2"], cfg["lp"]["scale"] = 0.0, False  # legal (validated as l2_lambda >= 0): no regularisation
        pos = "after_arm_change"
    if name == "partial_fit:singular_huge_row":
        pos = "after_arm_change"  # the newest arm has no data yet
        if "scale" in cfg["lp"]:
            cfg["lp"]["scale"] = False
    if name == "partial_fit:fewer_rows_than_clusters_first_call":
        pos = "before_fit"
    sh = gen.Shadow(cfg, nf)
    if name.endswith("before_fit") or name.endswith("first_call"):
        pos = "before_fit"
    elif pos == "before_fit" and name.split(":")[0] in ("predict", "predict_expectations", "partial_fit") and "before_fit" not in name:
        pos = "after_fit" if name.split(":")[0] != "partial_fit" or layer == "inside" else pos
    hist = []
    if pos == "before_fit":
        hist += gen.gen_ops(rs, cfg, sh, int(rs.integers(0, 3)), ["add_arm", "remove_arm"])
    else:
        hist += gen.gen_ops(rs, cfg, sh, 1, ["fit"], train_rows=(5, 14) if cfg["lp"].get("l2") != 0.0 else (14, 24))
        if layer == "inside" and rs.integers(2):
            # leave the first arm unobserved: a failure inside training may then hit after that arm was already updated
            first = sh.arms[0]
            others = [a for a in sh.arms if a != first]
            hist[-1]["d"] = [a if a != first else gen.pick(rs, others) for a in hist[-1]["d"]]
        if pos == "after_partial_fit":
            hist += gen.gen_ops(rs, cfg, sh, int(rs.integers(1, 3)), ["partial_fit"])
        elif pos == "after_arm_change":
            hist += gen.gen_ops(rs, cfg, sh, int(rs.integers(1, 4)), ["add_arm", "remove_arm", "partial_fit"]) + \
                gen.gen_ops(rs, cfg, sh, 1, ["add_arm"])
        elif pos == "after_warm_start_or_queries":
            hist += gen.gen_ops(rs, cfg, sh, 1, ["add_arm"]) + gen.gen_ops(rs, cfg, sh, 1, ["warm_start"]) + \
                gen.gen_ops(rs, cfg, sh, int(rs.integers(0, 3)), ["predict", "predict_expectations"])
    if not applies(cfg, sh):
        ctx.count("class_not_applicable_here")
        return
    M = gen.build(cfg)
    o = gen.run_ops(M, hist)
    if any(isinstance(x, list) and x and x[0] == "EXC" for x in o):
        ctx.count("history_raised")
        return
    desc, thunk = make(rs, cfg, sh)
    T = copy.deepcopy(M)
    arms_before = list(M.arms)
    ps0 = twin.process_state()
    try:
        thunk(M)
    except Exception as ex:  # noqa: BLE001
        exn = type(ex).__name__ + ": " + str(ex)[:80]
    else:
        ctx.count("not_rejected:" + name)
        ctx.count("not_rejected_cfg:%s|%s" % (name, gen.cfg_sig(cfg)))
        return
    ctx.count("rejected_calls")
    ctx.count("rejected@" + pos)
    ctx.count("rejected_class:" + name)
    wit = {"cfg": cfg, "history": hist, "position": pos, "class": name, "rejected_call": desc, "exception": exn}
    ctx.ev()
    psd = twin.process_state_diff(ps0, twin.process_state())
    if psd:
        ctx.violation("%s [%s]: the rejected %s left interpreter-wide state changed (%s): later calls of any bandit behave differently "
                      "from a process in which the call was never made" % (gen.cfg_sig(cfg), name, desc, ", ".join(psd)), wit,
                      kind="process_state|" + name)
        return
    if list(M.arms) != arms_before or [type(a) for a in M.arms] != [type(a) for a in arms_before]:
        ctx.violation("%s [%s]: rejected %s changed the arm list %r -> %r" % (gen.cfg_sig(cfg), name, desc, arms_before, M.arms), wit)
        return
    if sh.fitted:
        cont = gen.gen_continuation(rs, cfg, sh)
    else:
        sh2 = copy.deepcopy(sh)
        # a never-fitted bandit may be trained by fit or - equally legal - by a first partial_fit
        cont = gen.gen_ops(rs, cfg, sh2, 1, [gen.pick(rs, ["fit", "partial_fit"])], train_rows=(5, 12)) + \
            gen.gen_continuation(rs, cfg, sh2)
    cont = [{"op": "cold_arms"}] + cont  # the trained / warm status of every arm is part of 'exactly as it was'
    if gen.is_ctx(cfg) and sh.fitted:
        # probes in the container whose reading depends on what the bandit believes its feature count to be
        rowp = gen.gen_contexts(rs, 1 if sh.nf > 1 else 3, sh.nf)
        cont = [{"op": "predict_expectations", "X": rowp, "x_enc": "series"}, {"op": "predict", "X": rowp, "x_enc": "series"}] + cont
    wit["continuation"] = cont
    if name.endswith("wrong_feature_count"):
        # a shape error from inside *prediction* is not among the rejections the property lists; prediction may advance
        # the random streams (C10), so only "nothing learned changed" is demanded: generator positions are copied over
        rngs.graft(M, T)
    callback = name.endswith(":binarizer_raises")
    M0, T0 = (copy.deepcopy(M), copy.deepcopy(T)) if callback else (None, None)
    oM, oT = gen.run_ops(M, cont), gen.run_ops(T, cont)
    d = twin.first_diff(oM, oT)
    if d and callback and k7_explains(M0, T0, cont, name.split(":")[0]):
        ctx.violation("%s [%s at %s]: %s failed in the user's binarizer and left the bandit changed (conversion flag lowered / fit published "
                      "or reset state before converting the rewards)" % (gen.cfg_sig(cfg), name, pos, desc), wit, mech="K7")
        return
    if d:
        k = int(d.split("]")[0].split("[")[1]) if d.startswith("[") else -1
        ctx.violation("%s [%s at %s]: after the rejected call %s (%s) the bandit differs from its pre-call copy at continuation "
                      "step %d (%s): %s" % (gen.cfg_sig(cfg), name, pos, desc, exn.split(":")[0], k,
                                            gen.short(cont[k]) if 0 <= k < len(cont) else "?", d), wit,
                      kind="%s|%s" % (name, gen.cfg_sig(cfg)))
        return
    if layer in ("inside", "convert"):
        ctx.nt(name, gen.cfg_sig(cfg), pos)
    if ctx.index % 97 == 0:
        ctx.sample({"cfg": cfg, "position": pos, "class": name, "rejected_call": desc, "exception": exn,
                    "continuation": [gen.short(c) for c in cont]})
