"""C18 - results are independent of the data container type; inputs are never modified.

Twin monitor: the same scenario (fit, partial_fit, predict_expectations, predict, warm_start) is run once with
plain Python lists and once per alternative encoding of the same values (ndarray C / Fortran order, int and
float dtypes, object dtype, non-contiguous views, pandas Series with default / shifted index, DataFrame); the
output streams must be equal bit-for-bit.  The always-on snapshot contract (mon.contracts) compares a
byte-level image of every argument of every public call, and of the constructor's arguments, before and
after the call; here its alarms are verdicts.  The arm list must be independent of the caller's list.

As built: Extras: the objects a bandit was constructed from (arms list, policy tuples incl. their mutable fields) stay under the snapshot contract for the bandit's whole life; encodings also cover boolean rewards and nested lists mixing Python ints and floats (fractional values in later rows). Container classes 'narrow' (smallest integer dtype), 'f4' (contexts only, distance / hash policies only) and 'rev' (negative strides); TreeBandit parameter sets with max_features / random_state. A Simulator container scenario (inputs unchanged, lists vs arrays, with / without a scikit-learn scaler). Integral first batch / fractional later batch; Thompson cases carry binarizers (so that a conversion written into the caller's reward array is seen). Round 8: the second request of a scenario is written into the same query array object in place (reused request buffer).
"""
from mon import env  # noqa: F401
import copy

import numpy as np
import pandas as pd

from mon import contracts, gen, twin

ID = "C18"
LEVEL = "exploration"
TECHNIQUE = "runtime twin monitor over container encodings + always-on byte-level snapshot contracts around every public call and the constructor"
RULE = ("48 policy combinations x encodings {ndarray C, ndarray F / transposed view, int dtype, object dtype, non-contiguous "
        "view, Series default index, Series shifted index, DataFrame (shifted index)} applied to decisions, rewards, training "
        "and query contexts, plus single-feature and single-row problems passed as Series; list encoding is the reference. "
        "Non-trivial = encoding that is not C-contiguous float64, or a Series on a one-feature / one-row problem; distinct = "
        "(combo, encoding, shape class)")
BUDGET = {"quick": {"cases": 48 * 20, "shards": 16}, "thorough": {"cases": 48 * 10 * 60, "shards": 16, "wall_s": 3600}}
MIN = {"quick": {"evaluations": 700, "nontrivial": 250, "counters": {"c18_snapshots": 2000, "c18_ctor_snapshots": 700}},
       "thorough": {"evaluations": 20000, "nontrivial": 800, "counters": {"c18_snapshots": 60000, "c18_ctor_snapshots": 20000}}}
ASSUMPTIONS = ["integer encodings are used only where every value is integral (contexts always; rewards when binary)",
               "float32 is used for contexts only, and only under Radius / KNearest / LSHNearest (distances and projections upcast first)",
               "a Series as contexts is one column when there are several decisions and one row when there is one (the library's documented disambiguation)"]

ENCODINGS = ["nd_c", "nd_f", "int", "object", "view", "series", "series_shift", "frame", "list_mixed", "narrow", "narrow", "f4", "rev"]


def enc1(values, e, kind):
    """encode a 1-D sequence (decisions / rewards)"""
    if e == "list_mixed":
        return [int(v) if (not isinstance(v, str) and float(v).is_integer() and abs(float(v)) < 2 ** 62 and kind == "r") else v for v in values]
    if e in ("nd_c", "nd_f", "frame", "f4"):
        return np.asarray(values)
    if e == "narrow":
        # the smallest integer dtype that holds every value exactly (single precision is used for contexts only: float32
        # rewards change the arithmetic of every mean, which is numpy's documented behaviour and not a container effect)
        A = np.asarray(values)
        if A.dtype.kind in "if":
            B = gen.enc_X(A.reshape(-1, 1), e)
            return np.asarray(B).reshape(-1)
        return A
    if e == "int":
        if kind == "r" and all(float(v) in (0.0, 1.0) for v in values) and len(values) % 2:
            return np.asarray([bool(v) for v in values])  # boolean rewards (a legal encoding of binary rewards)
        if kind == "r" and all(float(v).is_integer() and abs(float(v)) < 2 ** 62 for v in values):  # must fit an int64 array
            return np.asarray([int(v) for v in values])
        return np.asarray(values)
    if e == "object":
        return np.asarray(values, dtype=object) if kind == "d" else np.asarray(values)
    if e == "rev":
        return np.ascontiguousarray(np.asarray(values)[::-1])[::-1]  # negative stride
    if e == "view":
        big = np.empty(2 * len(values), dtype=np.asarray(values).dtype)
        big[::2] = values
        big[1::2] = values[::-1]
        return big[::2]
    if e == "series":
        return pd.Series(values)
    if e == "series_shift":
        return pd.Series(values, index=range(100, 100 + len(values)))
    raise ValueError(e)


def enc2(X, e):
    """encode a 2-D context matrix"""
    if X is None:
        return None
    A = np.asarray(X, dtype=float)
    if e == "list_mixed":
        # nested Python lists in which integral values are ints and the others floats (what hand-written data looks like)
        return [[int(v) if float(v).is_integer() else float(v) for v in row] for row in X]
    if e == "int" and not np.all(A == np.floor(A)):
        e = "nd_c"  # an integer matrix cannot hold these values
    if e == "nd_c":
        return np.ascontiguousarray(A)
    if e in ("narrow", "f4"):
        return gen.enc_X(A, e)
    if e == "nd_f":
        return np.asfortranarray(A) if A.shape[1] > 1 or A.shape[0] % 2 else A.T.copy().T
    if e == "int":
        return A.astype(np.int64)
    if e == "object":
        return np.ascontiguousarray(A)
    if e == "rev":
        return np.ascontiguousarray(A[::-1, ::-1])[::-1, ::-1]  # negative strides on both axes
    if e == "view":
        big = np.zeros((A.shape[0], 2 * A.shape[1]))
        big[:, ::2] = A
        big[:, 1::2] = -1
        return big[:, ::2]
    if e in ("series", "series_shift"):
        return pd.DataFrame(A)
    if e == "frame":
        return pd.DataFrame(A, index=range(50, 50 + A.shape[0]), columns=["c%d" % i for i in range(A.shape[1])])
    raise ValueError(e)


def call(m, name, e, b=None, X=None):
    try:
        if name in ("fit", "partial_fit"):
            d, r = enc1(b["d"], e, "d"), enc1(b["r"], e, "r")
            if b["X"] is None:
                getattr(m, name)(d, r)
            else:
                getattr(m, name)(d, r, enc2(b["X"], e) if not isinstance(b["X"], pd.Series) else b["X"])
            return None
        return gen.canon(getattr(m, name)(X) if X is not None else getattr(m, name)())
    except Exception as ex:  # noqa: BLE001
        return ["EXC", type(ex).__name__]


def run_std(rs, ctx, l, p, e):
    if e == "f4" and p not in ("radius", "knn", "lsh"):
        # single-precision contexts are used where the library upcasts before it computes (distances, hash projections);
        # k-means, trees and the ridge algebra run in the precision they are given, which is numpy's / scikit-learn's documented
        # behaviour and not a container effect
        e = "narrow"
    cfg = gen.gen_cfg(rs, l, p, labels=gen.pick(rs, ["int", "str", "float"]), n_arms=int(rs.integers(2, 5)),
                      with_probs=bool(rs.integers(2)),
                      binarizer=gen.pick(rs, [None, "thr_three", "thr_inside"]) if (l == "ts" and p != "tree") else None)
    nf = int(gen.pick(rs, [1, 2, 3]))
    n = int(rs.integers(8, 20))
    b1 = gen.gen_batch(rs, cfg, cfg["arms"], n, nf, distinct_rows=5)
    if "scale" in cfg["lp"] and rs.integers(2):
        cfg["lp"]["scale"] = True
    n2 = int(rs.integers(1, 6))
    b2 = gen.gen_batch(rs, cfg, cfg["arms"], n2, nf)
    if rs.integers(2):
        b2["d"] = [b2["d"][0]] * n2  # a batch in which every row belongs to one arm (no row selection needed inside the library)
    ctxual = gen.is_ctx(cfg)
    Q = gen.gen_contexts(rs, int(gen.pick(rs, [1, 2, 3, 5])), nf if ctxual else 2)
    if e == "list_mixed" or rs.integers(4) == 0:
        # fractional values in all rows but the first (the first row of a nested list stays integral)
        for M_ in ([b1["X"], b2["X"]] if ctxual else []) + [Q]:
            for row in (M_ or [])[1:]:
                for j in range(len(row)):
                    row[j] = row[j] + float(gen.pick(rs, [0.0, 0.25, 0.5, 0.75]))
    if e in ("narrow", "int", "list_mixed", "frame") and ctxual and rs.integers(3) == 0:
        # whole numbers in the first batch, fractional values only in the later one (and in the queries)
        b1["X"] = [[float(int(v)) for v in row] for row in b1["X"]]
        b2["X"] = [[float(int(v)) + float(gen.pick(rs, [0.25, 0.5, 0.75])) for v in row] for row in b2["X"]]
        ctx.count("integral_first_batch_fractional_later")
    elif e in ("narrow", "int") and rs.integers(2):
        # larger integer coordinates (still far inside every integer dtype that is chosen for them)
        k_ = float(gen.pick(rs, [5, 30, 1000]))
        for M_ in ([b1["X"], b2["X"]] if ctxual else []) + [Q]:
            for row in (M_ or []):
                for j in range(len(row)):
                    row[j] = row[j] * k_
    use_q = ctxual or bool(rs.integers(2))
    # the next request, written into the caller's request buffer in place (same array object, same shape, other rows)
    Q2 = [list(x) for x in reversed(Q)] if len(Q) > 1 else [list(reversed(Q[0]))]
    warm = gen.gen_warm(rs, cfg["arms"]) if p == "none" else None
    outs = {}
    for enc in ("list", e):
        arms_in = list(cfg["arms"])
        m = gen.build(dict(cfg, arms=arms_in))
        o = []
        if enc == "list":
            try:
                m.fit(list(b1["d"]), list(b1["r"]), *([b1["X"]] if ctxual else []))
                m.partial_fit(list(b2["d"]), list(b2["r"]), *([b2["X"]] if ctxual else []))
                o += [None, None]
            except Exception as ex:  # noqa: BLE001
                o += [["EXC", type(ex).__name__]]
            o.append(call(m, "predict_expectations", enc, X=[list(x) for x in Q] if use_q else None))
            o.append(call(m, "predict", enc, X=[list(x) for x in Q] if use_q else None))
            if use_q and Q2 != Q:
                o.append(call(m, "predict_expectations", enc, X=[list(x) for x in Q2]))
        else:
            o.append(call(m, "fit", enc, b1))
            o.append(call(m, "partial_fit", enc, b2))
            qbuf = enc2(Q, enc) if use_q else None
            o.append(call(m, "predict_expectations", enc, X=qbuf))
            o.append(call(m, "predict", enc, X=qbuf))
            if use_q and Q2 != Q:
                if isinstance(qbuf, np.ndarray) and qbuf.flags.writeable:
                    qbuf[...] = np.asarray(Q2, dtype=float)
                    ctx.count("request_buffers_overwritten_in_place")
                else:
                    qbuf = enc2(Q2, enc)
                o.append(call(m, "predict_expectations", enc, X=qbuf))
        if warm is not None:
            feats = {a: (list(f) if enc == "list" else np.asarray(f)) for a, f in warm["features"]}
            try:
                m.warm_start(feats, warm["q"])
                o.append(gen.canon(m.cold_arms))
            except Exception as ex:  # noqa: BLE001
                o.append(["EXC", type(ex).__name__])
        # the arm list is the bandit's own
        arms_in.append("__caller_appended__")
        o.append(gen.canon(list(m.arms)))
        before = list(arms_in)
        new = [a for a in gen.LABELS[cfg["labels"]] if a not in m.arms][0]
        m.add_arm(new)
        if arms_in != before:
            ctx.violation("%s: add_arm changed the list the bandit was constructed from: %r" % (gen.cfg_sig(cfg), arms_in),
                          {"cfg": cfg}, kind="arms_list_aliased")
            return
        o.append(call(m, "predict", enc, X=(enc2(Q, enc) if enc != "list" else [list(x) for x in Q]) if use_q else None))
        outs[enc] = o
    ctx.ev(len(outs["list"]))
    d = twin.first_diff(outs["list"], outs[e])
    wit = {"cfg": cfg, "encoding": e, "fit": b1, "partial_fit": b2, "query": Q if use_q else None}
    if d:
        ctx.violation("%s: encoding %s gives different results from plain lists: %s" % (gen.cfg_sig(cfg), e, d), wit,
                      kind="%s|%s" % (e, gen.cfg_sig(cfg)))
        return
    if any(isinstance(x, list) and x and x[0] == "EXC" for x in outs["list"][:4]):
        raised = [x[1] for x in outs["list"][:4] if isinstance(x, list) and x and x[0] == "EXC"]
        if set(raised) <= {"LinAlgError"} and cfg["lp"]["kind"] == "lints":
            # LinTS draws through a Cholesky factor of alpha^2 * A^-1; with large coordinates and a tiny penalty that matrix is
            # numerically not positive definite and the draw is refused - for lists and for the other container alike (the two
            # output streams are equal), so there is no container effect to judge here
            ctx.count("lints_sampling_refused_in_both_encodings")
            return
        ctx.violation("%s: reference (list) scenario raised: %r" % (gen.cfg_sig(cfg), outs["list"][:4]), wit, kind="reference_raised")
        return
    if e != "nd_c":
        ctx.nt(gen.cfg_sig(cfg), e, "nf%d" % nf, "q" if use_q else "noq")
    ctx.sample({"cfg": cfg, "encoding": e, "rows": n, "nf": nf})


def run_series(rs, ctx, l, p, mode):
    """Series as contexts: one-feature problems (a column) and one-row calls (a row)"""
    cfg = gen.gen_cfg(rs, l, p, labels=gen.pick(rs, ["int", "str", "float"]), n_arms=int(rs.integers(2, 4)))
    ctxual = gen.is_ctx(cfg)
    shift = bool(rs.integers(2))

    def ser(v):
        return pd.Series(v, index=range(7, 7 + len(v))) if shift else pd.Series(v)
    wit = {"cfg": cfg, "mode": mode, "shifted_index": shift}
    if mode == "one_feature":
        n = int(rs.integers(8, 16))
        b1 = gen.gen_batch(rs, cfg, cfg["arms"], n, 1, distinct_rows=4, hi=9)
        b2 = gen.gen_batch(rs, cfg, cfg["arms"], int(rs.integers(2, 5)), 1, hi=9)
        Q = gen.gen_contexts(rs, int(gen.pick(rs, [2, 3, 5])), 1, hi=9)
        col = lambda X: ser([x[0] for x in X])  # noqa: E731
        steps = [("fit", b1), ("partial_fit", b2)]
        A, B = gen.build(cfg), gen.build(cfg)
        outs = {"list": [], "series": []}
        for name, b in steps:
            outs["list"].append(call(A, name, "nd_c", b))
            bs = dict(b)
            if ctxual:
                bs["X"] = col(b["X"])
            outs["series"].append(call(B, name, "series_shift" if shift else "series", bs))
        for name in ("predict_expectations", "predict"):
            outs["list"].append(call(A, name, "list", X=np.asarray(Q, dtype=float)))
            outs["series"].append(call(B, name, "series", X=col(Q)))
    else:  # one_row: a single decision with a Series of nf values; queried with a Series of nf values
        nf = int(gen.pick(rs, [2, 3]))
        n = int(rs.integers(8, 16))
        b1 = gen.gen_batch(rs, cfg, cfg["arms"], n, nf, distinct_rows=4)
        b2 = gen.gen_batch(rs, cfg, cfg["arms"], 1, nf)
        Q = gen.gen_contexts(rs, 1, nf)
        A, B = gen.build(cfg), gen.build(cfg)
        outs = {"list": [], "series": []}
        outs["list"].append(call(A, "fit", "nd_c", b1))
        outs["series"].append(call(B, "fit", "nd_c", b1))
        outs["list"].append(call(A, "partial_fit", "nd_c", b2))
        bs = dict(b2)
        if ctxual:
            bs["X"] = ser(b2["X"][0])
        outs["series"].append(call(B, "partial_fit", "series", bs))
        for name in ("predict_expectations", "predict"):
            outs["list"].append(call(A, name, "list", X=np.asarray(Q, dtype=float)))
            outs["series"].append(call(B, name, "series", X=ser(Q[0])))
    ctx.ev(len(outs["list"]))
    wit["outputs_list"] = outs["list"]
    d = twin.first_diff(outs["list"], outs["series"])
    if d:
        mech = None
        if not ctxual and all(x == ["EXC", "AttributeError"] for x in outs["series"][2:4]) and \
                twin.first_diff(outs["list"][:2], outs["series"][:2]) is None:
            mech = "K4"  # context-free bandit queried with a Series: no stored context history to disambiguate with
        ctx.violation("%s: contexts passed as Series (%s) give different results from arrays: %s" % (gen.cfg_sig(cfg), mode, d), wit,
                      mech=mech, kind="series|%s|%s" % (mode, gen.cfg_sig(cfg)))
        if mech is None:
            return
    ctx.nt(gen.cfg_sig(cfg), "series", mode, shift)
    ctx.sample({"cfg": cfg, "mode": "series_" + mode, "shifted_index": shift})


def run_sim(rs, ctx):
    """the Simulator is a caller of the library too: what it is handed (decisions, rewards, contexts - with and without a
    scikit-learn scaler, ordered and random split) must come back unchanged, and lists and arrays must give the same run"""
    import logging
    from sklearn.preprocessing import StandardScaler
    from mabwiser.simulator import Simulator
    from mon import simgen
    spec = simgen.gen_simulation(rs, n_rows=(24, 48))
    if spec["X"] is None:
        spec["X"] = gen.gen_contexts(rs, len(spec["d"]), 2, hi=5)
    for c in spec["cfgs"]:
        c["n_jobs"], c["backend"] = 1, None
    p = spec["params"]
    use_scaler = bool(rs.integers(3))
    dtype = gen.pick(rs, [np.float64, np.float64, np.float32])
    order = gen.pick(rs, ["C", "C", "F"])

    def one(as_arrays):
        bandits = [("b%d" % i, gen.build(c)) for i, c in enumerate(spec["cfgs"])]
        if as_arrays:
            d, r = np.asarray(spec["d"]), np.asarray(spec["r"], dtype=float)
            X = np.asarray(spec["X"], dtype=dtype, order=order)
        else:
            d, r, X = list(spec["d"]), list(spec["r"]), [list(x) for x in spec["X"]]
        before = [gen.canon(np.asarray(d).tolist()), np.asarray(r, dtype=float).tobytes(), np.asarray(X, dtype=float).tobytes()]
        root = logging.getLogger()
        handlers = list(root.handlers)
        try:
            sim = Simulator(bandits=bandits, decisions=d, rewards=r, contexts=X, scaler=StandardScaler() if use_scaler else None,
                            test_size=p["test_size"], is_ordered=p["is_ordered"], batch_size=p["batch_size"], seed=p["seed"],
                            is_quick=p["is_quick"])
            sim.run()
            out = gen.canon({k: list(v) for k, v in sim.bandit_to_predictions.items()})
        except Exception as ex:  # noqa: BLE001
            out = ["EXC", type(ex).__name__]
        finally:
            for h in list(root.handlers):
                if h not in handlers:
                    root.removeHandler(h)
        after = [gen.canon(np.asarray(d).tolist()), np.asarray(r, dtype=float).tobytes(), np.asarray(X, dtype=float).tobytes()]
        return out, [n for n, a, b in zip(("decisions", "rewards", "contexts"), before, after) if a != b]

    wit = {"simulation": {k: spec[k] for k in ("cfgs", "d", "r", "X", "params")}, "scaler": use_scaler, "dtype": np.dtype(dtype).name, "order": order}
    out_l, ch_l = one(False)
    out_a, ch_a = one(True)
    ctx.ev(2)
    ctx.count("simulator_container_runs", 2)
    if ch_l or ch_a:
        ctx.violation("Simulator.run (scaler=%s, is_ordered=%s) modified the caller's %s passed as %s" % (
            use_scaler, p["is_ordered"], ", ".join(ch_a or ch_l), "arrays" if ch_a else "lists"), wit, kind="simulator_modified_input")
        return
    if dtype == np.float64 and out_l != out_a and "EXC" not in (out_l[:1] + out_a[:1]):
        ctx.violation("Simulator (scaler=%s, is_ordered=%s): lists and arrays of the same values give different predictions: %s" % (
            use_scaler, p["is_ordered"], twin.first_diff(out_l, out_a)), wit, kind="simulator_container")
        return
    ctx.nt("simulator", use_scaler, p["is_ordered"], np.dtype(dtype).name, order)
    ctx.sample({"mode": "simulator", "scaler": use_scaler, "is_ordered": p["is_ordered"], "dtype": np.dtype(dtype).name, "order": order})


def run_case(rs, ctx):
    l, p = gen.ALL_COMBOS[ctx.index % 48]
    slot = (ctx.index // 48) % 10
    if slot == 9:
        return run_sim(rs, ctx) if ctx.index % 4 == 0 else run_std(rs, ctx, l, p, "rev")
    if slot == 8:
        return run_std(rs, ctx, l, p, "narrow")
    if slot == 5:
        return run_series(rs, ctx, l, p, "one_feature")
    if slot == 6:
        return run_series(rs, ctx, l, p, "one_row")
    e = ENCODINGS[slot] if slot < 5 else ENCODINGS[5 + int(rs.integers(8))]
    return run_std(rs, ctx, l, p, e)


def classify_alarm(alarm):
    return None
