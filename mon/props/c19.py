"""C19 - copies and pickles of a bandit behave identically to the original (twin monitor, incl. other process).

At a seeded point of a bandit's life three clones are made: a reference deep copy P, the clone under test C
(deepcopy or pickle protocol 2..5, restored in this process or in a fresh interpreter), and the original M
keeps living.  The same continuation K is run first on C, then on M, then on P; all three output streams
must be equal bit-for-bit: C == M says the clone behaves like the original, M == P says using the clone did
not disturb the original.

As built: Extras: all six copy points are reached in both tiers; Thompson bandits that receive their binarizer through add_arm and are then fed non-binary rewards. TreeBandit parameter sets with max_features / random_state (incl. an explicit None). Fork scenario (a second copy goes its own way before the original continues and must then answer like a bandit rebuilt from the history); deepcopy in 3 of 8 cases; millisecond-timestamp column under scale=True. Round 8: a third of the bandits train and answer with worker threads before the copy is taken; a copy that raises is a violation.
"""
from mon import env
import copy
import json
import os
import pickle
import subprocess
import sys
import tempfile

from mon import gen, twin

ID = "C19"
LEVEL = "exploration"
TECHNIQUE = "runtime twin monitor: original vs deepcopy / pickle(2..5) clones, restored in-process and in a fresh interpreter; bit-exact continuation comparison"
RULE = ("48 policy combinations (+ Thompson with module-level binarizers) x copy point in {before fit, after fit, after "
        "partial_fit, after arm change, after warm start, after queries} x clone method in {deepcopy, pickle 2..5, pickle + "
        "fresh interpreter}; non-trivial = clone taken after an arm change or warm start, or restored in another process; "
        "distinct = (combo, copy point, method, continuation skeleton)")
BUDGET = {"quick": {"cases": 48 * 15, "shards": 16}, "thorough": {"cases": 48 * 240, "shards": 16, "wall_s": 3600}}
MIN = {"quick": {"evaluations": 400, "nontrivial": 60, "counters": {"restored_in_fresh_interpreter": 8}},
       "thorough": {"evaluations": 10000, "nontrivial": 1500, "counters": {"restored_in_fresh_interpreter": 200}}}
ASSUMPTIONS = ["binarizers are module-level functions of mon.binarizers (picklable, importable in the child)",
               "the fresh interpreter imports the same /repo tree (PYTHONPATH exported by mon.env)"]

POINTS = ["before_fit", "after_fit", "after_partial_fit", "after_arm_change", "after_warm_start", "after_queries"]
METHODS = ["deepcopy", "pickle2", "deepcopy", "pickle4", "pickle5", "subprocess", "deepcopy", "pickle3"]


def child_run(m, ops, proto):
    fd, pk = tempfile.mkstemp(suffix=".pkl", dir=os.path.join(env.VERIF, ".work"))
    with os.fdopen(fd, "wb") as f:
        pickle.dump(m, f, proto)
    fd, sp = tempfile.mkstemp(suffix=".json", dir=os.path.join(env.VERIF, ".work"))
    with os.fdopen(fd, "w") as f:
        json.dump({"pickle": pk, "ops": ops}, f)
    try:
        r = subprocess.run([sys.executable, "-m", "mon.scenario", sp], cwd=env.VERIF, timeout=900,
                           stdout=subprocess.PIPE, stderr=subprocess.PIPE)
        if r.returncode != 0:
            return None, r.stderr.decode(errors="replace")[-300:]
        return json.loads(r.stdout.decode())["out"], None
    except subprocess.TimeoutExpired:
        return None, "timeout"
    finally:
        os.unlink(pk)
        os.unlink(sp)


def run_case(rs, ctx):
    l, p = gen.ALL_COMBOS[ctx.index % 48]
    point = POINTS[(ctx.index // 48 + ctx.index % 48) % 6]
    method = METHODS[(ctx.index // 7) % 8]
    if method == "subprocess" and ctx.index % 3:
        method = "pickle%d" % (2 + ctx.index % 4)
    binz = gen.pick(rs, [None, "thr_inside", "thr_three"]) if l == "ts" else None
    cfg = gen.gen_cfg(rs, l, p, labels=gen.pick(rs, ["int", "str", "float"]), n_arms=int(rs.integers(2, 5)),
                      binarizer=binz, with_probs=bool(rs.integers(4) == 0))
    if ctx.index % 3 == 1 and not (p == "tree" and l in ("ts", "eg")):
        # worker threads for training and queries before the copy is taken (whatever a threaded call leaves on the bandit - pools,
        # locks, per-thread scratch - has to survive copying and pickling); TreeBandit + Thompson / EpsilonGreedy stay
        # single-threaded: their continuation is schedule dependent on both twins (known finding K2)
        cfg["n_jobs"], cfg["backend"] = 2 + (ctx.index // 3) % 2, "threading"
        ctx.count("threaded_bandits")
    nf = int(gen.pick(rs, [1, 2, 3]))
    sh = gen.Shadow(cfg, nf)
    sh.vary_nf = True
    hist = []
    if point != "before_fit":
        hist += gen.gen_ops(rs, cfg, sh, 1, ["fit"], train_rows=(5, 16))
        if point == "after_partial_fit":
            hist += gen.gen_ops(rs, cfg, sh, int(rs.integers(1, 3)), ["partial_fit"])
        elif point == "after_arm_change":
            hist += gen.gen_ops(rs, cfg, sh, int(rs.integers(1, 4)), ["add_arm", "remove_arm", "partial_fit"])
            hist += gen.gen_ops(rs, cfg, sh, 1, ["add_arm"])
        elif point == "after_warm_start":
            hist += gen.gen_ops(rs, cfg, sh, 1, ["add_arm"]) + gen.gen_ops(rs, cfg, sh, 1, ["warm_start"])
        elif point == "after_queries":
            hist += gen.gen_ops(rs, cfg, sh, int(rs.integers(1, 4)), ["predict", "predict_expectations"])
    else:
        hist += gen.gen_ops(rs, cfg, sh, int(rs.integers(0, 3)), ["add_arm", "remove_arm"])
    late_binarizer = None
    if l == "ts" and binz is None and sh.fitted and not gen.has_probs(cfg) and rs.integers(2):
        # the binarizer arrives with add_arm: afterwards non-binary rewards are legal
        late_binarizer = gen.pick(rs, ["thr_inside", "thr_three", "thr_half"])
        o = gen.gen_ops(rs, cfg, sh, 1, ["add_arm"])
        if o:
            o[0]["binarizer"] = late_binarizer
            hist += o
            cfg = copy.deepcopy(cfg)
        else:
            late_binarizer = None
    cfg_cont = cfg if late_binarizer is None else dict(cfg, lp=dict(cfg["lp"], binarizer=late_binarizer))
    cont = gen.gen_continuation(rs, cfg_cont, sh) if sh.fitted else \
        gen.gen_ops(rs, cfg, sh, 1, ["fit"], train_rows=(5, 12)) + gen.gen_continuation(rs, cfg, sh)
    if gen.is_linear(cfg) and cfg["lp"].get("scale") and rs.integers(2):
        # a timestamp-like first column: huge common value, spread of a few 2^-17 - inside an arm's rows the column is 'nearly
        # constant' by scikit-learn's own rule although its standard deviation is far above zero
        base_, step_ = gen.pick(rs, [(1.7e9, 2.0 ** -19), (1.7e12, 2.0 ** -12), (1.7e12, 2.0 ** -12)])  # seconds / milliseconds
        for o_ in hist + cont:
            if o_.get("X") is not None:
                o_["X"] = [[base_ + row[0] * step_] + list(row[1:]) for row in o_["X"]]
                o_.pop("x_enc", None)
        ctx.count("timestamp_column_cases")
    M = gen.build(cfg)
    wit = {"cfg": cfg, "history": hist, "copy_point": point, "method": method, "continuation": cont}
    o = gen.run_ops(M, hist)
    if any(isinstance(x, list) and x and x[0] == "EXC" for x in o):
        ctx.count("history_raised")
        return
    try:
        P = copy.deepcopy(M)
    except Exception as ex:  # noqa: BLE001
        ctx.violation("%s: deepcopy at %s raised %s: %s" % (gen.cfg_sig(cfg), point, type(ex).__name__, str(ex)[:100]), wit)
        return
    fork = None
    if method != "subprocess" and sh.fitted and rs.integers(2):
        # a fork: a second copy goes its own way (other data) before the original continues; afterwards it must still answer
        # like a bandit that was rebuilt from the same history and never had anything to do with the original
        div = gen.gen_continuation(rs, cfg_cont, sh)
        # both sides give every current arm (also arms that were still untrained when the copy was taken) new, different rows first
        for seq in (div, cont):
            sh_ = copy.deepcopy(sh)
            pf = gen.gen_ops(rs, cfg_cont, sh_, 1, ["partial_fit"], train_rows=(len(sh_.arms), len(sh_.arms) + 4))
            if pf:
                pf[0]["d"][:len(sh_.arms)] = list(sh_.arms)
                seq.insert(0, pf[0])
        R = gen.build(cfg)
        gen.run_ops(R, hist)
        try:
            F2 = twin.clone(M, method)
        except Exception:  # noqa: BLE001
            F2 = None
        if F2 is not None:
            fork = (F2, R, div, gen.run_ops(F2, div))
    try:
        if method == "subprocess":
            proto = 2 + ctx.index % 4
            oC, err = child_run(M, cont, proto)
            if oC is None and err == "timeout":
                ctx.count("fresh_interpreter_timeouts")  # a watchdog firing is inconclusive for this case, never a verdict
                return
            if oC is None:
                ctx.violation("%s: pickle (protocol %d) could not be restored / run in a fresh interpreter: %s" % (
                    gen.cfg_sig(cfg), proto, err), wit)
                return
            ctx.count("restored_in_fresh_interpreter")
        else:
            C = twin.clone(M, method)
            oC = gen.run_ops(C, cont)
    except Exception as ex:  # noqa: BLE001
        ctx.violation("%s: %s at %s raised %s: %s" % (gen.cfg_sig(cfg), method, point, type(ex).__name__, str(ex)[:100]), wit)
        return
    oM = gen.run_ops(M, cont)
    oP = gen.run_ops(P, cont)
    oC, oM, oP = (json.loads(json.dumps(x)) for x in (oC, oM, oP))
    ctx.ev(2)
    d = twin.first_diff(oC, oM)
    if d:
        ctx.violation("%s: clone (%s, taken %s) differs from the original: %s" % (gen.cfg_sig(cfg), method, point, d), wit)
        return
    d = twin.first_diff(oM, oP)
    if d:
        ctx.violation("%s: using the clone (%s, taken %s) changed what the original does: %s" % (gen.cfg_sig(cfg), method, point, d), wit)
        return
    if fork is not None:
        F2, R, div, out_f = fork
        probe = [o_ for o_ in div if o_["op"] in ("predict_expectations", "cold_arms", "policies")]
        out_r = gen.run_ops(R, div)
        got, want = json.loads(json.dumps(out_f + gen.run_ops(F2, probe))), json.loads(json.dumps(out_r + gen.run_ops(R, probe)))
        ctx.ev()
        ctx.count("fork_checks")
        d = twin.first_diff(got, want)
        if d:
            ctx.violation("%s: a copy (%s, taken %s) that went its own way no longer answers like an independent bandit with the same "
                          "history once the original was used again: %s" % (gen.cfg_sig(cfg), method, point, d),
                          dict(wit, fork_continuation=div), kind="fork|" + gen.cfg_sig(cfg))
            return
    if point in ("after_arm_change", "after_warm_start") or method == "subprocess":
        ctx.nt(gen.cfg_sig(cfg), point, method, "".join(c["op"][0] for c in cont))
    ctx.sample({"cfg": cfg, "copy_point": point, "method": method, "history": [gen.short(x) for x in hist],
                "continuation": [gen.short(x) for x in cont]})
