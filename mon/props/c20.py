"""C20 - results are invariant to arm names and to the order of training rows; reward laws (metamorphic twins).

(1) relabelling: the same history is run on a bandit whose arm list is relabelled position by position
    (int -> str / float / negative ints / strings in reverse sort order); outputs are mapped back to positions and
    compared bit-for-bit (same seed).
(2) row order: the rows of the whole training history are permuted and re-split into the same chunk sizes;
    every expectation must be unchanged (exact on dyadic data, 1e-8 for linear policies).
(3) reward laws on histories where every arm is observed: +c shifts greedy / UCB1 expectations by c and leaves
    Softmax unchanged; rewards * 2^k scale LinGreedy(0) expectations by 2^k exactly.

As built: Extras: a deliberate warm-start tie (identical feature vectors of trained arms) in a third of the relabelling cases without neighbourhood policy. Relabelling target 'closefloat' (distinct float labels agreeing in 6-15 digits); reward shifts down to -1e6 in the Softmax / greedy laws.
"""
from mon import env  # noqa: F401
import copy

import numpy as np

from mon import gen, twin

ID = "C20"
LEVEL = "exploration"
TECHNIQUE = "runtime metamorphic twin monitor: relabelled / row-permuted / reward-transformed problem run beside the original, outputs mapped back and compared"
RULE = ("relabelling: 48 policy combinations x target label sets {str, float, negative ints, strings in reverse sort order} x "
        "histories with partial_fit, arm changes, warm start and queries; row order: context-free and linear policies and "
        "Radius / LSHNearest over them x random permutations across partial_fit chunk boundaries; reward laws: greedy/UCB1/"
        "Softmax shift by dyadic c, LinGreedy(0) scale by 2^k. Non-trivial = relabelling that reverses the sort order of the "
        "labels, or a permutation moving rows across chunk boundaries, or a law case; distinct = (mode, combo, target labels / "
        "chunk sizes / constant, history skeleton)")
TARGETS = ["str", "float", "negint", "strrev", "closefloat"]
BLOCK = 48 * 5 + 120 + 60
BUDGET = {"quick": {"cases": BLOCK * 3, "shards": 16}, "thorough": {"cases": BLOCK * 120, "shards": 16, "wall_s": 3600}}
MIN = {"quick": {"evaluations": 600, "nontrivial": 150}, "thorough": {"evaluations": 30000, "nontrivial": 8000}}
ASSUMPTIONS = ["relabelled twins are built with the same seed and the same arm-list order",
               "row-order invariance is exact only on exactly summable data (dyadic rewards, integer contexts); 1e-8 (1+|v|) for linear",
               "KNearest (tie-breaking by position), Clusters (k-means initialisation) and TreeBandit are outside the row-order clause"]

PERM_COMBOS = [(l, p) for l in gen.LP_KINDS for p in ("none", "radius", "lsh")]


def relabel_op(op, mp):
    o = dict(op)
    if "d" in o:
        o["d"] = [mp[a] for a in o["d"]]
    if "arm" in o:
        o["arm"] = mp[o["arm"]]
    if "features" in o:
        o["features"] = [[mp[a], f] for a, f in o["features"]]
    return o


def to_positions(out, op, inv):
    """canonical output with every arm label replaced by its position in the original label set"""
    k = op["op"]
    if isinstance(out, list) and out and out[0] == "EXC":
        return out

    def arm(c):
        return ["pos", inv[gen.decanon(c)]]
    if k in ("predict", "cold_arms", "arms"):
        if isinstance(out, list) and out and isinstance(out[0], list):
            return [arm(c) for c in out]
        return arm(out) if out else out
    if k == "predict_expectations":
        rows = [out] if isinstance(out, dict) else out
        res = [{"__d": [[arm(kk), vv] for kk, vv in r["__d"]]} for r in rows]
        return res[0] if isinstance(out, dict) else res
    return out


def run_relabel(rs, ctx, j):
    l, p = gen.ALL_COMBOS[j % 48]
    target = TARGETS[(j // 48) % 5]
    n_arms = int(rs.integers(2, 6))
    cfg = gen.gen_cfg(rs, l, p, labels="int", n_arms=n_arms, with_probs=bool(rs.integers(4) == 0))
    src, dst = gen.LABELS["int"], gen.LABELS[target]
    mp = dict(zip(src, dst))
    cfg2 = copy.deepcopy(cfg)
    cfg2["arms"] = [mp[a] for a in cfg["arms"]]
    cfg2["labels"] = target
    nf = int(gen.pick(rs, [1, 2, 3]))
    sh = gen.Shadow(cfg, nf)
    ops = gen.gen_ops(rs, cfg, sh, 1, ["fit"], train_rows=(5, 16)) + gen.gen_ops(
        rs, cfg, sh, int(rs.integers(3, 10)),
        ["partial_fit", "add_arm", "remove_arm", "warm_start", "predict", "predict_expectations", "cold_arms", "fit"])
    ops += gen.gen_ops(rs, cfg, sh, 2, ["predict_expectations", "predict"])
    if p == "none" and l != "rnd" and len(cfg["arms"]) >= 3 and rs.integers(3) == 0:
        # a warm start whose nearest trained arm is not unique: the tie must be broken by arm-list order, whatever the labels
        cold = cfg["arms"][-1]
        trained = cfg["arms"][:-1]
        ops[0]["d"] = [a if a != cold else gen.pick(rs, trained) for a in ops[0]["d"]]
        ops[0]["d"][:len(trained)] = list(trained)
        tie = {"op": "warm_start", "features": [[a, [1.0, 2.0]] for a in trained] + [[cold, [2.0, 1.0]]], "q": 1.0}
        ops = [ops[0], tie, {"op": "cold_arms"}] + gen.gen_ops(rs, cfg, gen.Shadow(cfg, nf), 0, ["predict"]) + \
            [o for o in ops[1:] if o["op"] in ("predict", "predict_expectations", "partial_fit", "cold_arms")]
        ops = [o for o in ops if not (o["op"] == "partial_fit" and any(a not in cfg["arms"] for a in o["d"]))]
    ops2 = [relabel_op(o, mp) for o in ops]
    A, B = gen.build(cfg), gen.build(cfg2)
    oa, ob = gen.run_ops(A, ops), gen.run_ops(B, ops2)
    inv_a = {a: i for i, a in enumerate(src)}
    inv_b = {a: i for i, a in enumerate(dst)}
    wit = {"cfg": cfg, "target_labels": [mp[a] for a in src[:8]], "ops": ops}
    for step, (o, x, y) in enumerate(zip(ops, oa, ob)):
        if o["op"] in ("predict", "predict_expectations", "cold_arms"):
            ctx.ev()
        try:
            px, py = to_positions(x, o, inv_a), to_positions(y, o, inv_b)
        except KeyError as ex:
            ctx.violation("%s: output contains a label outside the arm set: %r" % (gen.cfg_sig(cfg), ex), wit, kind="relabel_foreign_label")
            return
        d = twin.first_diff(px, py)
        if d:
            ctx.violation("%s relabelled int -> %s: step %d (%s) differs after mapping the labels back: %s" % (
                gen.cfg_sig(cfg), target, step, gen.short(o), d), wit, kind="relabel|%s|%s" % (gen.cfg_sig(cfg), target))
            return
    if target in ("negint", "strrev"):
        ctx.nt("relabel", gen.cfg_sig(cfg), target, "".join(o["op"][0] for o in ops))
    ctx.sample({"mode": "relabel", "cfg": cfg, "target": target, "ops": [gen.short(o) for o in ops]})


def run_perm(rs, ctx, j):
    l, p = PERM_COMBOS[j % len(PERM_COMBOS)]
    cfg = gen.gen_cfg(rs, l, p, labels=gen.pick(rs, ["int", "str", "float"]), n_arms=int(rs.integers(2, 5)))
    if "scale" in cfg["lp"]:
        cfg["lp"]["scale"] = False
    nf = int(gen.pick(rs, [1, 2, 3]))
    n = int(rs.integers(8, 31))
    data = gen.gen_batch(rs, cfg, cfg["arms"], n, nf)
    n_chunks = int(rs.integers(1, 5))
    cuts = sorted(set(int(c) for c in rs.integers(2, n - 1, n_chunks - 1))) if n_chunks > 1 else []
    bounds = [0] + cuts + [n]
    perm = [int(i) for i in rs.permutation(n)]
    pdata = {"d": [data["d"][i] for i in perm], "r": [data["r"][i] for i in perm],
             "X": None if data["X"] is None else [data["X"][i] for i in perm]}
    A, B = gen.build(cfg), gen.build(cfg)
    for m, dset in ((A, data), (B, pdata)):
        for c in range(len(bounds) - 1):
            op = dict(gen.slice_batch(dset, bounds[c], bounds[c + 1]), op="fit" if c == 0 else "partial_fit")
            gen.apply_op(m, op)
    tol = twin.fit_tol(cfg)
    wit = {"cfg": cfg, "data": data, "chunk_bounds": bounds, "permutation": perm}
    for _ in range(2):
        ctx.ev()
        Q = gen.gen_contexts(rs, int(gen.pick(rs, [1, 2, 4])), nf) if gen.is_ctx(cfg) else None
        qop = {"op": "predict_expectations", "X": Q}
        ea, eb = gen.run_ops(A, [qop])[0], gen.run_ops(B, [qop])[0]
        d = twin.first_diff(ea, eb, tol)
        if d:
            ctx.violation("%s: permuting the training rows changed an expectation: %s" % (gen.cfg_sig(cfg), d), wit,
                          kind="perm|" + gen.cfg_sig(cfg))
            return
    crossing = any(sum(1 for b in bounds if b <= i) != sum(1 for b in bounds if b <= perm.index(i)) for i in range(n)) if len(bounds) > 2 else False
    if crossing or len(bounds) == 2:
        ctx.nt("perm", gen.cfg_sig(cfg), [bounds[i + 1] - bounds[i] for i in range(len(bounds) - 1)], nf)
    ctx.sample({"mode": "row_permutation", "cfg": cfg, "rows": n, "chunk_bounds": bounds})


def run_law(rs, ctx, j):
    kind = ["eg", "ucb", "sm", "lingreedy"][j % 4]
    cfg = gen.gen_cfg(rs, kind, "none", labels=gen.pick(rs, ["int", "str", "float"]), n_arms=int(rs.integers(2, 5)), deterministic=True)
    if "scale" in cfg["lp"]:
        cfg["lp"]["scale"] = False
    nf = 2
    n = int(rs.integers(2 * len(cfg["arms"]), 25))
    data = gen.gen_batch(rs, cfg, cfg["arms"], n, nf)
    data["d"][:len(cfg["arms"])] = list(cfg["arms"])  # every arm observed
    cuts = sorted(set(int(c) for c in rs.integers(len(cfg["arms"]), n, int(rs.integers(0, 3)))))
    bounds = [0] + [c for c in cuts if 0 < c < n] + [n]
    if kind == "lingreedy":
        c = float(gen.pick(rs, [2.0, 0.5, 8.0, -4.0]))
        r2 = [c * v for v in data["r"]]
    else:
        c = float(gen.pick(rs, [1.0, -2.5, 0.125, 16.0, -740.0, -2000.0, 1000.0, -1.0e6]))  # incl. shifts far below -700 * tau
        r2 = [v + c for v in data["r"]]
    d2 = dict(data, r=r2)
    A, B = gen.build(cfg), gen.build(cfg)
    wit = {"cfg": cfg, "data": data, "constant": c, "chunk_bounds": bounds}
    for m, dset in ((A, data), (B, d2)):
        for i in range(len(bounds) - 1):
            try:
                gen.apply_op(m, dict(gen.slice_batch(dset, bounds[i], bounds[i + 1]), op="fit" if i == 0 else "partial_fit"))
            except Exception as ex:  # noqa: BLE001
                ctx.violation("%s: training on rewards %s raised %s: %s" % (
                    kind, "as given" if dset is data else ("x %g" % c if kind == "lingreedy" else "+ %g" % c), type(ex).__name__, str(ex)[:80]),
                    wit, kind="law_raised|" + kind)
                return
    if kind == "sm":
        ea, eb = A._imp.arm_to_expectation, B._imp.arm_to_expectation
        want = dict(ea)
        law = "unchanged"
    else:
        Q = np.asarray(gen.gen_contexts(rs, 3, nf), dtype=float)
        ea = A.predict_expectations(Q) if kind == "lingreedy" else A.predict_expectations()
        eb = B.predict_expectations(Q) if kind == "lingreedy" else B.predict_expectations()
        law = "scaled by %g" % c if kind == "lingreedy" else "shifted by %g" % c
    rows_a = ea if isinstance(ea, list) else [ea]
    rows_b = eb if isinstance(eb, list) else [eb]
    for ra, rb in zip(rows_a, rows_b):
        for a in cfg["arms"]:
            ctx.ev()
            va, vb = float(ra[a]), float(rb[a])
            want = va if kind == "sm" else (va * c if kind == "lingreedy" else va + c)
            tol = 1e-9 * (1 + abs(want)) if kind == "lingreedy" else 1e-12 * (1 + abs(want))
            if kind == "sm":
                # a shifted mean is the mean plus the constant only up to the rounding of numbers of the constant's size;
                # Softmax divides that rounding error by tau
                tol += 16 * float(np.spacing(abs(c) + 16.0 + max(abs(v) for v in data["r"]))) / float(cfg["lp"]["tau"])
            if abs(vb - want) > tol:
                ctx.violation("%s: rewards %s: arm %r expectation %r, the law predicts %r (original %r)" % (
                    kind, "x %g" % c if kind == "lingreedy" else "+ %g" % c, a, vb, want, va), wit, kind="law|" + kind)
                return
    ctx.nt("law", kind, c, bounds, n)
    ctx.sample({"mode": "reward_law", "cfg": cfg, "constant": c, "law": law})


def run_case(rs, ctx):
    j = ctx.index % BLOCK
    if j < 48 * 5:
        return run_relabel(rs, ctx, j)
    if j < 48 * 5 + 120:
        return run_perm(rs, ctx, j - 48 * 5)
    return run_law(rs, ctx, j - 48 * 5 - 120)
