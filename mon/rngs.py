"""Generator objects reachable from a bandit: enumeration (paths + aliasing), state digests, grafting.

"The same random-stream position" (C06, C07, C09, C10, C14, C17, C19, C20) means: every `_BaseRNG` object
reachable from the two bandits has equal state *and* the same sharing pattern.  `_Linear._fit_arm`
deep-copies each arm model including its generator, so a bandit can hold several generator objects."""
from mon import env  # noqa: F401
import copy

import numpy as np

from mabwiser.utils import _BaseRNG


def rng_paths(obj, path=(), seen=None, out=None):
    """[(path, generator)] for every _BaseRNG reachable through mabwiser objects, dicts, lists, tuples"""
    if seen is None:
        seen, out = set(), []
    if isinstance(obj, _BaseRNG):
        out.append((path, obj))
        return out
    if id(obj) in seen:
        return out
    if isinstance(obj, (int, float, str, bytes, bool, type(None), np.ndarray, np.generic)):
        return out
    seen.add(id(obj))
    if isinstance(obj, dict):
        for k, v in obj.items():
            rng_paths(v, path + (("k", k),), seen, out)
    elif isinstance(obj, (list, tuple)):
        for i, v in enumerate(obj):
            rng_paths(v, path + (("i", i),), seen, out)
    elif hasattr(obj, "__dict__") and type(obj).__module__.startswith("mabwiser"):
        for k, v in vars(obj).items():
            rng_paths(v, path + (("a", k),), seen, out)
    return out


def _state(r):
    st = r.rng.bit_generator.state
    return (st["bit_generator"], st["state"]["state"], st["state"]["inc"], st["has_uint32"], st["uinteger"], r.seed)


def signature(bandit):
    """sharing pattern + states of all generators: equal signatures <=> same random-stream position"""
    ids, sig = {}, []
    for path, r in rng_paths(bandit):
        cls = ids.setdefault(id(r), len(ids))
        sig.append((repr(path), cls, _state(r)))
    return sig


def n_generators(bandit):
    return len({id(r) for _, r in rng_paths(bandit)})


def graft(src, dst):
    """make dst's generators copies of src's, at the same paths, reproducing aliasing.
    Paths that do not exist in dst are skipped (reported by the return value)."""
    memo, missing = {}, 0
    for path, r in rng_paths(src):
        if id(r) not in memo:
            memo[id(r)] = copy.deepcopy(r)
        o = dst
        try:
            for kind, key in path[:-1]:
                o = o[key] if kind in ("k", "i") else getattr(o, key)
            kind, key = path[-1]
            if kind in ("k", "i"):
                o[key] = memo[id(r)]
            else:
                setattr(o, key, memo[id(r)])
        except (KeyError, IndexError, AttributeError, TypeError):
            missing += 1
    return missing
