"""Fresh-interpreter scenario runner:  python -m mon.scenario <spec.json>   -> JSON on stdout

spec = {"pickle": path | null, "cfg": cfg | null, "ops": [...],
        "others": [{"cfg":..., "ops":[...]}, ...] | null, "interleave": bool}
Restores a pickled bandit (or builds one from cfg), optionally constructs / trains / queries *other* bandits
between every two steps (C04 isolation), runs the literal ops and prints the canonical outputs."""
from mon import env
import json
import pickle
import sys


def main(path):
    env.assert_repo_tree()
    from mon import gen
    with open(path) as f:
        spec = json.load(f)
    if spec.get("pickle"):
        with open(spec["pickle"], "rb") as f:
            m = pickle.load(f)
    else:
        m = gen.build(spec["cfg"])
    others = spec.get("others") or []
    live = []
    cursor = [0] * len(others)
    out = []
    for step, op in enumerate(spec["ops"]):
        # interleave: advance every other bandit by one or two of its own ops between two steps of the scenario
        for j, o in enumerate(others):
            if step == 0:
                live.append(gen.build(o["cfg"]))
            for _ in range(2):
                if cursor[j] < len(o["ops"]):
                    gen.run_ops(live[j], [o["ops"][cursor[j]]])
                    cursor[j] += 1
        out += gen.run_ops(m, [op])
    json.dump({"out": out, "hashseed": sys.flags.hash_randomization, "arms": gen.canon(list(m.arms))}, sys.stdout)


if __name__ == "__main__":
    main(sys.argv[1])
