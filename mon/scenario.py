"""Fresh-interpreter scenario runner:  python -m mon.scenario <spec.json>   -> JSON on stdout

spec = {"pickle": path | null, "cfg": cfg | null, "ops": [...],
        "others": [{"cfg":..., "ops":[...], "reuse_policy_objects": bool}, ...] | null}
Restores a pickled bandit (or builds one from cfg), optionally constructs / trains / queries *other* bandits
between every two steps (C04 isolation) - with `reuse_policy_objects` they are built from the very same
LearningPolicy / NeighborhoodPolicy tuple objects as the scenario bandit - runs the literal ops and prints the
canonical outputs."""
from mon import env
import json
import pickle
import sys


def make_policy_objects(cfg):
    from mabwiser.mab import NeighborhoodPolicy as NP
    from mon import gen
    lp = gen.make_lp(cfg["lp"])
    if cfg["np"]["kind"] == "tree" and cfg["np"].get("default"):
        np_ = NP.TreeBandit()  # the NamedTuple's shared default dict
    else:
        np_ = gen.make_np(cfg["np"])
    return lp, np_


def build_with(cfg, lp, np_):
    from mabwiser.mab import MAB
    return MAB(list(cfg["arms"]), lp, np_, seed=cfg["seed"], n_jobs=cfg.get("n_jobs", 1), backend=cfg.get("backend"))


def run_interleaved(cfg, ops, others, on_other_call=None, restored=None):
    """the scenario bandit is built first; every other bandit is built lazily and advanced by up to two of its own
    ops between two steps of the scenario.  on_other_call(description) is invoked after every call on another bandit."""
    from mon import gen
    lp, np_ = make_policy_objects(cfg) if cfg else (None, None)
    m = restored if restored is not None else build_with(cfg, lp, np_)
    live, cursor, out = {}, [0] * len(others), []
    for step, op in enumerate(ops):
        for j, o in enumerate(others):
            if j not in live:
                if o.get("reuse_policy_objects") and cfg and o["cfg"]["lp"]["kind"] == cfg["lp"]["kind"] and \
                        o["cfg"]["np"]["kind"] == cfg["np"]["kind"]:
                    live[j] = build_with(o["cfg"], lp, np_)
                else:
                    live[j] = build_with(o["cfg"], *make_policy_objects(o["cfg"]))
                if on_other_call:
                    on_other_call("construct other #%d %s" % (j, gen.cfg_sig(o["cfg"])))
            for _ in range(2):
                if cursor[j] < len(o["ops"]):
                    gen.run_ops(live[j], [o["ops"][cursor[j]]])
                    if on_other_call:
                        on_other_call("other #%d %s: %s" % (j, gen.cfg_sig(o["cfg"]), gen.short(o["ops"][cursor[j]])))
                    cursor[j] += 1
        out += gen.run_ops(m, [op])
    return m, out


def main(path):
    env.assert_repo_tree()
    from mon import gen
    with open(path) as f:
        spec = json.load(f)
    restored = None
    if spec.get("pickle"):
        with open(spec["pickle"], "rb") as f:
            restored = pickle.load(f)
    m, out = run_interleaved(spec.get("cfg"), spec["ops"], spec.get("others") or [], restored=restored)
    json.dump({"out": out, "hash_randomization": sys.flags.hash_randomization, "arms": gen.canon(list(m.arms))}, sys.stdout)


if __name__ == "__main__":
    main(sys.argv[1])
