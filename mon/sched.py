"""Schedule perturbation and task-order control for the library's own joblib.Parallel calls (C05).

(a) real threads: sys.monitoring (3.12) LINE events restricted to code objects of /repo/mabwiser whose function
    name is in a target set inject time.sleep(0) with probability 1/2 (statement starts only - places where the
    interpreter can switch anyway), sys.setswitchinterval(1e-6) shortens GIL slices, PY_START / PY_RETURN events of
    the target functions are logged with the thread id so that distinct interleavings and overlapping tasks can
    be counted.  The monitor's log is append-only under one lock.
(b) deterministic orders: the name `Parallel` in mabwiser.base_mab / mabwiser.approximate is temporarily bound
    to a sequential executor that runs the delayed tasks in a chosen permutation, while every dict attribute of
    the implementor (and the per-table LSH buckets) is replaced by a recording proxy: per task the keys read and
    written are logged, which is what the 'disjoint write sets' mechanism promises."""
from mon import env  # noqa: F401
import collections
import contextlib
import itertools
import random
import sys
import threading
import time

import mabwiser.approximate
import mabwiser.base_mab

TOOL_ID = 3
REPO_PREFIX = env.REPO.rstrip("/") + "/mabwiser/"


# ------------------------------------------------------------------------------------------ (a) real threads
class YieldInjector:
    def __init__(self, targets=("_fit_arm", "_add_neighbors", "_predict_contexts", "get_context_hash"), seed=0, p=0.5):
        self.targets = set(targets)
        self.rnd = random.Random(seed)
        self.p = p
        self.lock = threading.Lock()
        self.log = []  # (event, function, thread id)
        self.yields = 0
        self.lines = 0

    def _line(self, code, line):
        if not code.co_filename.startswith(REPO_PREFIX) or code.co_name not in self.targets:
            return sys.monitoring.DISABLE
        with self.lock:
            self.lines += 1
            do = self.rnd.random() < self.p
            if do:
                self.yields += 1
        if do:
            time.sleep(0)
        return None

    def _start(self, code, offset):
        if not code.co_filename.startswith(REPO_PREFIX) or code.co_name not in self.targets:
            return sys.monitoring.DISABLE
        with self.lock:
            self.log.append(("S", code.co_name, threading.get_ident()))
        return None

    def _ret(self, code, offset, retval):
        if not code.co_filename.startswith(REPO_PREFIX) or code.co_name not in self.targets:
            return sys.monitoring.DISABLE
        with self.lock:
            self.log.append(("R", code.co_name, threading.get_ident()))
        return None

    def __enter__(self):
        mon = sys.monitoring
        self.old_interval = sys.getswitchinterval()
        sys.setswitchinterval(1e-6)
        mon.use_tool_id(TOOL_ID, "mabwiser-verif-sched")
        E = mon.events
        mon.register_callback(TOOL_ID, E.LINE, self._line)
        mon.register_callback(TOOL_ID, E.PY_START, self._start)
        mon.register_callback(TOOL_ID, E.PY_RETURN, self._ret)
        mon.set_events(TOOL_ID, E.LINE | E.PY_START | E.PY_RETURN)
        mon.restart_events()
        return self

    def __exit__(self, *exc):
        mon = sys.monitoring
        mon.set_events(TOOL_ID, 0)
        for ev in (mon.events.LINE, mon.events.PY_START, mon.events.PY_RETURN):
            mon.register_callback(TOOL_ID, ev, None)
        mon.free_tool_id(TOOL_ID)
        sys.setswitchinterval(self.old_interval)
        return False

    def interleaving(self):
        """(signature of the observed start/return order with threads renamed by first appearance, overlapped?)"""
        names, sig, open_, overlap = {}, [], 0, False
        for ev, fn, tid in self.log:
            t = names.setdefault(tid, len(names))
            sig.append("%s%d" % (ev, t))
            if ev == "S":
                open_ += 1
                overlap |= open_ > 1
            else:
                open_ -= 1
        return " ".join(sig), overlap, len(names)


# ------------------------------------------------------------------------------------ (b) deterministic orders
class _Rec:
    current = None  # id of the running task
    log = None  # list of (task, 'r'|'w', dict name, key)


class RecDict(dict):
    _name = "?"

    def __getitem__(self, k):
        if _Rec.log is not None and _Rec.current is not None:
            _Rec.log.append((_Rec.current, "r", self._name, k))
        return dict.__getitem__(self, k)

    def __setitem__(self, k, v):
        if _Rec.log is not None and _Rec.current is not None:
            _Rec.log.append((_Rec.current, "w", self._name, k))
        dict.__setitem__(self, k, v)

    def __reduce__(self):
        return (dict, (dict(self),))


class RecDefaultDict(collections.defaultdict):
    _name = "?"

    def __getitem__(self, k):
        if _Rec.log is not None and _Rec.current is not None:
            _Rec.log.append((_Rec.current, "r", self._name, k))
        return collections.defaultdict.__getitem__(self, k)

    def __setitem__(self, k, v):
        if _Rec.log is not None and _Rec.current is not None:
            _Rec.log.append((_Rec.current, "w", self._name, k))
        collections.defaultdict.__setitem__(self, k, v)


def _wrap(imp):
    """replace dict attributes of the implementor by recording proxies; returns the undo list"""
    undo = []
    for name, val in list(vars(imp).items()):
        if type(val) is dict:
            inner = False
            if val and all(type(v) is collections.defaultdict for v in val.values()) and name == "table_to_hash_to_index":
                new = {}
                for k, v in val.items():
                    d = RecDefaultDict(v.default_factory, v)
                    d._name = "%s[%r]" % (name, k)
                    new[k] = d
                setattr(imp, name, new)
                undo.append((name, "inner"))
                inner = True
            if not inner:
                d = RecDict(val)
                d._name = name
                setattr(imp, name, d)
                undo.append((name, "outer"))
    return undo


def _unwrap(imp, undo):
    for name, kind in undo:
        val = getattr(imp, name)
        if kind == "outer":
            setattr(imp, name, dict(val))
        else:
            setattr(imp, name, {k: collections.defaultdict(v.default_factory, v) for k, v in val.items()})


class OrderedExecutor:
    """stand-in for joblib.Parallel: runs the delayed tasks sequentially in the order chosen by `chooser`"""
    chooser = None  # callable(n_tasks, call_index) -> permutation
    calls = []  # per Parallel call: {"n":, "order":, "log":, "sharedmem":}

    def __init__(self, n_jobs=None, backend=None, require=None, **kw):
        self.require = require

    def __call__(self, iterable):
        tasks = list(iterable)
        n = len(tasks)
        call_index = len(OrderedExecutor.calls)
        order = list(OrderedExecutor.chooser(n, call_index)) if OrderedExecutor.chooser else list(range(n))
        imp = None
        for f, a, k in tasks:
            imp = getattr(f, "__self__", None)
            break
        undo = _wrap(imp) if (imp is not None and self.require == "sharedmem") else []
        results = [None] * n
        _Rec.log = []
        try:
            for idx in order:
                f, a, k = tasks[idx]
                _Rec.current = idx
                results[idx] = f(*a, **k)
        finally:
            _Rec.current = None
            log, _Rec.log = _Rec.log, None
            if undo:
                _unwrap(imp, undo)
        OrderedExecutor.calls.append({"n": n, "order": order, "log": log, "sharedmem": self.require == "sharedmem",
                                      "fn": getattr(tasks[0][0], "__name__", "?") if tasks else "-"})
        return results


@contextlib.contextmanager
def ordered(chooser):
    old = (mabwiser.base_mab.Parallel, mabwiser.approximate.Parallel)
    OrderedExecutor.chooser = chooser
    OrderedExecutor.calls = []
    mabwiser.base_mab.Parallel = OrderedExecutor
    mabwiser.approximate.Parallel = OrderedExecutor
    try:
        yield OrderedExecutor
    finally:
        mabwiser.base_mab.Parallel, mabwiser.approximate.Parallel = old
        OrderedExecutor.chooser = None


def write_conflicts(call):
    """pairs of distinct tasks that write the same key, or where one reads a key the other writes"""
    writes, reads = collections.defaultdict(set), collections.defaultdict(set)
    for task, kind, name, key in call["log"]:
        try:
            hash(key)
        except TypeError:
            key = repr(key)
        (writes if kind == "w" else reads)[task].add((name, key))
    bad = []
    for i, j in itertools.permutations(sorted(writes), 2):
        if i < j and writes[i] & writes[j]:
            bad.append(("write/write", i, j, sorted(writes[i] & writes[j], key=repr)[:3]))
    for i in reads:
        for j in writes:
            if i != j and reads[i] & writes[j]:
                bad.append(("read/write", i, j, sorted(reads[i] & writes[j], key=repr)[:3]))
    return bad, sum(len(v) for v in writes.values())



class FastSwitch:
    """scheduling stress without instrumentation: the interpreter is asked to hand the GIL over every microsecond, so that
    worker threads (and caller threads) interleave inside the pure-Python sections a default 5 ms interval runs atomically"""

    def __init__(self, interval=1e-6):
        self.interval = interval

    def __enter__(self):
        import sys
        self.old = sys.getswitchinterval()
        sys.setswitchinterval(self.interval)
        return self

    def __exit__(self, *exc):
        import sys
        sys.setswitchinterval(self.old)
        return False
