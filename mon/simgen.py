"""Seeded Simulator scenarios shared by C15 and C16."""
from mon import env  # noqa: F401
import logging
import math

import numpy as np

from mon import gen

METRICS = ["cityblock", "chebyshev", "euclidean", "sqeuclidean"]


def gen_simulation(rs, n_rows=(24, 60), force_nn_pair=None, absent_arm=False, force_empty=False, data_metrics=False):
    n_arms = int(rs.integers(2, 5))
    # non-integral float labels: sklearn's confusion_matrix rejects them ("continuous"); integral ones are accepted
    labels = gen.pick(rs, ["int", "str", "negint", "bigfloat"])
    arms = list(gen.LABELS[labels][:n_arms])
    n = int(rs.integers(n_rows[0], n_rows[1] + 1))
    # incl. sizes for which 1 - test_size is not exact in binary floating point (0.8, 0.9, 0.55, 0.15, 0.2)
    test_size = float(gen.pick(rs, [0.1, 0.25, 0.3, 0.5, 0.7, 0.8, 0.9, 0.55, 0.15, 0.2]))
    if test_size in (0.8, 0.9, 0.55, 0.15, 0.2) and rs.integers(2):
        n = max(20, (n // 20) * 20)  # ... with a row count for which n * test_size is a whole number
    while int(n * (1 - test_size)) < 8:
        n += 20  # every learner needs a handful of training rows
    nf = int(gen.pick(rs, [2, 3]))
    n_bandits = int(rs.integers(2, 6))
    nn_pair = bool(rs.integers(2)) if force_nn_pair is None else force_nn_pair
    combos = []
    if nn_pair:
        k1, k2 = gen.pick(rs, ["radius", "knn"]), gen.pick(rs, ["radius", "knn"])
        combos += [(gen.pick(rs, gen.LP_KINDS), k1), (gen.pick(rs, gen.LP_KINDS), k2)]
    forced = None
    if force_empty:
        # a Radius / LSHNearest bandit that is certain to meet empty neighbourhoods and carries its own distribution for them
        forced = (gen.pick(rs, gen.LP_KINDS), gen.pick(rs, ["lsh", "radius"]))
        combos.append(forced)
    only_context_free = not combos and rs.integers(8) == 0
    while len(combos) < n_bandits:
        if only_context_free:
            # a simulation without any contextual bandit runs without contexts at all (its own split / scoring paths)
            combos.append((gen.pick(rs, [k for k in gen.LP_KINDS if not k.startswith("lin")]), "none"))
        else:
            combos.append(gen.ALL_COMBOS[int(rs.integers(48))])
    order = rs.permutation(len(combos))
    combos = [combos[int(i)] for i in order]
    cfgs = []
    used_metrics = []
    for l, p in combos:
        is_forced = forced is not None and (l, p) == forced
        c = gen.gen_cfg(rs, l, p, labels=labels, n_arms=n_arms, with_probs=bool(rs.integers(2)) or is_forced)
        if p == "lsh" and (rs.integers(2) or is_forced):
            c["np"]["n_dimensions"] = int(gen.pick(rs, [5, 6, 7]))  # many buckets: empty neighbourhoods among the test rows
            if is_forced:
                c["np"]["n_tables"] = 1
        if p == "radius" and (rs.integers(3) == 0 or is_forced):
            c["np"]["radius"] = 0.5 if is_forced else 1.0  # small radius: empty neighbourhoods among the test rows
        if p in ("radius", "knn"):
            # different metrics for the neighbourhood bandits of one simulation (they share a distance cache)
            choices = ([m for m in METRICS if m not in used_metrics] or METRICS) if rs.integers(2) else (used_metrics or METRICS)
            c["np"]["metric"] = gen.pick(rs, choices)
            used_metrics.append(c["np"]["metric"])
            if data_metrics and rs.integers(4) == 0:
                # a metric whose scale is estimated from the rows scipy is handed in one call (standardised euclidean)
                c["np"]["metric"] = "seuclidean"
            if p == "knn":
                c["np"]["k"] = int(gen.pick(rs, [1, 2, 3]))
        if p in ("radius", "knn", "lsh") and rs.integers(4) == 0:
            c["n_jobs"], c["backend"] = int(gen.pick(rs, [2, 3, 4])), "threading"  # worker threads inside the simulation
        if l == "ts" and rs.integers(2) == 0:
            # Thompson Sampling with a binarizer (the logged rewards stay binary: other Thompson bandits of the simulation have none)
            c["lp"]["binarizer"] = gen.pick(rs, ["inverted", "thr_half", "nonneg"])
        cfgs.append(c)
    kinds = {c["lp"]["kind"] for c in cfgs}
    contextual = any(gen.is_ctx(c) for c in cfgs)
    if "ts" in kinds:
        rk = "binary"
    else:
        rk = "nonneg"
    d = [arms[int(i)] for i in rs.integers(0, n_arms, n)]
    if absent_arm:
        # an arm that occurs only at the very start or the very end: absent from train or test when ordered
        victim = arms[-1]
        others = arms[:-1]
        d = [a if a != victim else gen.pick(rs, others) for a in d]
        if absent_arm != "never":  # "never": the arm does not occur in the logged data at all
            pos = 0 if rs.integers(2) else n - 1
            d[pos] = victim
    r = gen.gen_rewards(rs, n, rk)
    X = gen.gen_contexts(rs, n, nf, hi=5) if contextual else None
    if X is not None:
        # a radius placed exactly on the distance between two rows of the data (scipy's own double value, irrational for
        # euclidean): the boundary is included, in the simulator as in the library
        from scipy.spatial.distance import cdist
        for c in cfgs:
            if c["np"]["kind"] == "radius" and rs.integers(2):
                i_, j_ = int(rs.integers(n)), int(rs.integers(n))
                if rs.integers(2):
                    # ... the distance from a row to its *nearest* other row: for that row no neighbour is closer than the radius
                    dd_ = cdist(np.asarray([X[i_]], dtype=float), np.asarray(X, dtype=float), metric=c["np"]["metric"])[0]
                    cand = [k_ for k_ in range(n) if dd_[k_] > 0]
                    if cand:
                        j_ = min(cand, key=lambda k_: dd_[k_])
                r_ = float(cdist(np.asarray([X[i_]], dtype=float), np.asarray([X[j_]], dtype=float), metric=c["np"]["metric"])[0][0])
                if r_ > 0 and c["np"]["metric"] not in METRICS:
                    c["np"]["radius"] = r_
                elif r_ > 0:
                    from mon.oracles import nhood
                    key_ = int(nhood.dist_key(c["np"]["metric"], X[i_], X[j_]))
                    if rs.integers(2):
                        c["np"]["radius"], c["np"]["radius_key"] = r_, key_
                    else:
                        # a hair (2^-40 relative) below that distance: rows at exactly that distance are outside
                        c["np"]["radius"], c["np"]["radius_key"] = r_ * (1.0 - 2.0 ** -40), key_ - 0.5

    n_test = math.ceil(n * test_size)
    is_ordered = bool(rs.integers(2))
    bs_choices = [0, 0, 1, 2, 3, 7, n_test - 1, n_test]
    batch_size = int(gen.pick(rs, [b for b in bs_choices if 0 <= b <= n_test]))
    # every learner needs enough training rows
    n_train = n - n_test
    for c in cfgs:
        if c["np"]["kind"] == "knn":
            c["np"]["k"] = max(1, min(c["np"]["k"], n_train))
        if c["np"]["kind"] == "clusters":
            c["np"]["n_clusters"] = 2
    # source hook MABWISER_VERIF_GB_SCALE (guarded by MABWISER_VERIF=1): scale the simulator's estimate of the distance list
    # so that the test rows / batches are processed in several chunks, as they would be with > 1 GB of distances
    gb_scale = None
    if contextual and rs.integers(2):
        pairs_gb = n_test * 8 * n_train / 1e9
        want_chunk = int(gen.pick(rs, [1, 2, 3, 5, max(1, n_test // 2)]))
        gb_scale = (n_test / (want_chunk + 0.5)) / pairs_gb if n_test > want_chunk else None
    return {"cfgs": cfgs, "arms": arms, "d": d, "r": r, "X": X, "nf": nf, "gb_scale": gb_scale,
            "params": {"test_size": test_size, "is_ordered": is_ordered, "batch_size": batch_size,
                       "is_quick": bool(rs.integers(2)), "seed": int(gen.pick(rs, [0, 7, 123456, int(rs.integers(10 ** 6))]))},
            "n_test": n_test, "n_train": n_train}


def gen_big_simulation(rs, is_quick):
    """one offline simulation large enough (> 1.25e8 test x train pairs, ~1 GB of distances) for the Simulator to split the
    test rows into several chunks - the only regime in which its per-chunk bookkeeping does anything"""
    n, nf = 102000, 2
    arms = [0, 1, 2]
    X = (rs.integers(0, 1024, (n, nf)) / 1024.0).tolist()
    d = [int(v) for v in rs.integers(0, 3, n)]
    r = [float(v) / 8.0 for v in rs.integers(0, 17, n)]
    cfgs = [
        {"arms": arms, "labels": "int", "lp": {"kind": "eg", "epsilon": 0.0},
         "np": {"kind": "knn", "k": 25, "metric": "euclidean"}, "seed": 7, "n_jobs": 1, "backend": None},
        {"arms": arms, "labels": "int", "lp": {"kind": "ucb", "alpha": 1.0},
         "np": {"kind": "radius", "radius": 0.02, "metric": "euclidean", "probs": None}, "seed": 11, "n_jobs": 1, "backend": None},
        {"arms": arms, "labels": "int", "lp": {"kind": "eg", "epsilon": 0.0}, "np": {"kind": "none"}, "seed": 3, "n_jobs": 1, "backend": None},
    ]
    test_size = 0.0125
    n_test = n - int(n * (1 - test_size))
    return {"cfgs": cfgs, "arms": arms, "d": d, "r": r, "X": X, "nf": nf, "big": True,
            "params": {"test_size": test_size, "is_ordered": True, "batch_size": 0, "is_quick": bool(is_quick), "seed": 123456},
            "n_test": n_test, "n_train": n - n_test}


def run_simulator(sim_spec, bandits):
    from mabwiser.simulator import Simulator
    p = sim_spec["params"]
    d = np.asarray(sim_spec["d"])
    r = np.asarray(sim_spec["r"], dtype=float)
    X = None if sim_spec["X"] is None else np.asarray(sim_spec["X"], dtype=float)
    root = logging.getLogger()
    before = list(root.handlers)
    import os
    if sim_spec.get("gb_scale"):
        os.environ["MABWISER_VERIF_GB_SCALE"] = repr(float(sim_spec["gb_scale"]))
    else:
        os.environ.pop("MABWISER_VERIF_GB_SCALE", None)
    try:
        sim = Simulator(bandits=bandits, decisions=d, rewards=r, contexts=X, scaler=None, test_size=p["test_size"],
                        is_ordered=p["is_ordered"], batch_size=p["batch_size"], seed=p["seed"], is_quick=p["is_quick"])
        if any(c.get("backend") == "threading" for c in sim_spec["cfgs"]):
            from mon import sched
            with sched.FastSwitch():  # the simulation's worker threads interleave inside their pure-Python sections
                sim.run()
            sim_spec["threaded"] = True
        else:
            sim.run()
    finally:
        os.environ.pop("MABWISER_VERIF_GB_SCALE", None)
        for h in list(root.handlers):
            if h not in before:
                root.removeHandler(h)
    sim_spec["chunk_size_used"] = int(getattr(sim, "_chunk_size", 0))
    return sim
