"""Twin construction and output-stream comparison."""
from mon import env  # noqa: F401
import copy
import math
import pickle

from mon import gen, rngs


def first_diff(a, b, tol=0.0, path=""):
    """None if the two canonical output streams agree, else a short description of the first difference.
    tol > 0: floats may differ by tol * (1 + |v|); everything else (arms, key order, shapes, exception
    types, NaN positions) must agree exactly."""
    if isinstance(a, dict) and isinstance(b, dict):
        return first_diff(a.get("__d"), b.get("__d"), tol, path + ".dict")
    if isinstance(a, list) and isinstance(b, list):
        if len(a) == 2 and len(b) == 2 and isinstance(a[0], str) and isinstance(b[0], str):
            if a[0] in ("f", "float64", "float32") and b[0] in ("f", "float64", "float32"):
                if a == b:
                    return None
                if tol > 0 and a[0] == b[0] and "nan" not in (a[1], b[1]):
                    x, y = float.fromhex(a[1]), float.fromhex(b[1])
                    if math.isinf(x) or math.isinf(y):
                        return None if x == y else "%s: %r != %r" % (path, x, y)
                    if abs(x - y) <= tol * (1 + max(abs(x), abs(y))):
                        return None
                    return "%s: %r != %r (beyond tolerance %g)" % (path, x, y, tol)
                return "%s: %s != %s" % (path, _show(a), _show(b))
            return None if a == b else "%s: %s != %s" % (path, _show(a), _show(b))
        if len(a) != len(b):
            return "%s: length %d != %d" % (path, len(a), len(b))
        for i, (x, y) in enumerate(zip(a, b)):
            d = first_diff(x, y, tol, "%s[%d]" % (path, i))
            if d:
                return d
        return None
    return None if a == b else "%s: %s != %s" % (path, _show(a), _show(b))


def _show(c):
    if isinstance(c, list) and len(c) == 2 and isinstance(c[0], str):
        if c[0] in ("f", "float64", "float32") and c[1] != "nan":
            return "%s:%r" % (c[0], float.fromhex(c[1]))
        return "%s:%r" % (c[0], c[1])
    return repr(c)[:120]


def clone(m, how="deepcopy"):
    if how == "deepcopy":
        return copy.deepcopy(m)
    if how.startswith("pickle"):
        return pickle.loads(pickle.dumps(m, int(how[6:] or 5)))
    raise ValueError(how)


def fit_tol(cfg):
    """comparison tolerance for twins whose floating-point summation order legitimately differs"""
    return 1e-8 if gen.is_linear(cfg) else 0.0


def same_position(a, b):
    return rngs.signature(a) == rngs.signature(b)


# ----------------------------------------------------------------------------- tolerant query comparison
def query_block(m, Q1, Q2, ctx_free_none=False):
    """E1 = expectations for Q1 (advances the streams), then P2 = predict(Q2) with G2 = expectations for Q2
    taken from a deep copy at the same position (used only to recognise near-ties when a tolerance applies)."""
    import numpy as np
    out = {}

    def call(obj, name, Q):
        try:
            f = getattr(obj, name)
            return gen.canon(f() if Q is None else f(np.asarray(Q, dtype=float)))
        except Exception as e:  # noqa: BLE001
            return ["EXC", type(e).__name__]
    out["E1"] = call(m, "predict_expectations", Q1)
    g = copy.deepcopy(m)
    out["G2"] = call(g, "predict_expectations", Q2)
    out["P2"] = call(m, "predict", Q2)
    return out


def compare_blocks(a, b, tol):
    """difference between two query blocks or None; with tol > 0 predicted arms are compared only on rows whose
    two largest expectations are separated by more than 1e-6 (1 + |max|)"""
    d = first_diff(a["E1"], b["E1"], tol, "E1")
    if d:
        return d
    if tol == 0:
        return first_diff(a["P2"], b["P2"], 0, "P2") or first_diff(a["G2"], b["G2"], 0, "G2")
    d = first_diff(a["G2"], b["G2"], tol, "G2")
    if d:
        return d
    if a["P2"] == b["P2"]:
        return None
    if (a["P2"] and a["P2"][0] == "EXC") or (b["P2"] and b["P2"][0] == "EXC"):
        return "P2: %r != %r" % (a["P2"], b["P2"])
    pa, pb = gen.pred_rows(a["P2"]), gen.pred_rows(b["P2"])
    if len(pa) != len(pb):
        return "P2: %d rows != %d rows" % (len(pa), len(pb))
    rows = gen.exp_rows(a["G2"])
    for i, (x, y) in enumerate(zip(pa, pb)):
        if x != y or type(x) is not type(y):
            vals = sorted((v for _, v in rows[i] if not math.isnan(v)), reverse=True)
            if len(vals) >= 2 and vals[0] - vals[1] <= 1e-6 * (1 + abs(vals[0])):
                continue  # near-tie: legitimately rounding dependent
            return "P2[%d]: %r != %r" % (i, x, y)
    return None



def process_state():
    """interpreter-wide state that no library call may leave changed: whatever it is set to decides how *later* calls of any
    bandit behave (an armed numpy error mode turns an overflow into an exception, the global generator feeds scikit-learn
    estimators built with random_state=None, ...)"""
    import hashlib
    import logging
    import numpy as np
    st = np.random.get_state()
    return {"numpy error mode": sorted(np.geterr().items()),
            "numpy global generator": hashlib.md5(st[1].tobytes() + repr(st[2:]).encode()).hexdigest(),
            "numpy print options": repr(sorted((k, repr(v)) for k, v in np.get_printoptions().items())),
            "logging root": (logging.root.level, len(logging.root.handlers))}


def process_state_diff(a, b):
    return [k for k in a if a[k] != b[k]]
