"""One shard of one check:  python -m mon.worker <prop> <tier> <seed> <shard> <nshards> <out.json> [index]

Runs the property module's run_case() on the cases of its shard with the always-on contracts installed,
under a faulthandler watchdog, and writes what was observed as JSON."""
from mon import env
import faulthandler
import importlib
import json
import sys
import time
import traceback

import numpy as np


def prop_module(prop):
    return importlib.import_module("mon.props." + prop.lower())


def case_rng(seed, prop, index):
    return np.random.default_rng([int(seed), int(prop[1:]), int(index)])


def run_one(mod, prop, tier, seed, index):
    from mon.case import Ctx
    ctx = Ctx(prop, tier, seed, index)
    rs = case_rng(seed, prop, index)
    from mon import gen
    # long histories: in the thorough tier every tenth case multiplies the length of its mixed-call section (60-120 calls)
    gen.LEN_SCALE = (6 if (index // 70) % 2 else 3) if (tier == "thorough" and (index // 7) % 10 == 9) else 1
    if gen.LEN_SCALE > 1:
        ctx.count("long_history_cases")
    mod.run_case(rs, ctx)
    return ctx


def main(argv):
    prop, tier, seed, shard, nshards, out = argv[0], argv[1], int(argv[2]), int(argv[3]), int(argv[4]), argv[5]
    only = int(argv[6]) if len(argv) > 6 else None
    env.assert_repo_tree()
    mod = prop_module(prop)
    budget = mod.BUDGET[tier]
    total = budget["cases"]
    wall = budget.get("wall_s", 3000 if tier == "quick" else 3600)  # generous watchdog: a loaded machine must not turn a verdict into "inconclusive"
    faulthandler.enable()
    faulthandler.dump_traceback_later(wall + 120, exit=True)
    from mon import contracts
    contracts.install()
    if hasattr(mod, "setup_worker"):
        mod.setup_worker(tier)
    t0 = time.time()
    res = {"prop": prop, "shard": shard, "cases": 0, "evaluations": 0, "nontrivial": [], "violations": [],
           "samples": [], "counters": {}, "side_alarms": [], "errors": [], "stopped_early": False,
           "mech_hits": {}}
    nontrivial = set()
    indices = [only] if only is not None else range(shard, total, nshards)
    np.seterr(all="ignore")
    for index in indices:
        if time.time() - t0 > wall:
            res["stopped_early"] = True
            break
        try:
            ctx = run_one(mod, prop, tier, seed, index)
        except Exception:  # noqa: BLE001 - an escape from run_case is a harness/library crash: inconclusive
            res["errors"].append({"index": index, "trace": traceback.format_exc()[-1500:]})
            contracts.drain()
            if len(res["errors"]) > 20:
                break
            continue
        res["cases"] += 1
        res["evaluations"] += ctx.evaluations
        nontrivial |= ctx.nontrivial
        for k, v in ctx.counters.items():
            res["counters"][k] = res["counters"].get(k, 0) + v
        if len(res["samples"]) < 2 and ctx.samples:
            res["samples"].append(ctx.samples[0])
        for v in ctx.violations:
            if v.get("mech"):
                h = res["mech_hits"].setdefault(v["mech"], {"n": 0, "example": v})
                h["n"] += 1
            elif len(res["violations"]) < 40:
                res["violations"].append(v)
            else:
                res["counters"]["violations_truncated"] = res["counters"].get("violations_truncated", 0) + 1
        for a in contracts.drain():
            a["index"] = index
            if a["property"] == prop:
                mech = mod.classify_alarm(a) if hasattr(mod, "classify_alarm") else None
                v = {"what": "always-on contract: " + a["what"], "witness": a, "mech": mech, "index": index}
                if mech:
                    h = res["mech_hits"].setdefault(mech, {"n": 0, "example": v})
                    h["n"] += 1
                else:
                    res["violations"].append(v)
            elif len(res["side_alarms"]) < 20:
                res["side_alarms"].append(a)
    res["nontrivial"] = sorted(nontrivial)
    res["contracts"] = contracts.counters()
    res["wall_s"] = time.time() - t0
    if hasattr(mod, "teardown_worker"):
        res["counters"].update(mod.teardown_worker() or {})
    faulthandler.cancel_dump_traceback_later()
    from mon.case import jdump
    with open(out, "w") as f:
        f.write(jdump(res))
    return 0


if __name__ == "__main__":
    sys.exit(main(sys.argv[1:]))
