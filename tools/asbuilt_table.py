#!/venv/bin/python
"""tools/asbuilt_table.py: prints the per-property as-built table of DESIGN.md section 8.8 from the property modules and the
evidence files of the last quick run in /verif/evidence"""
import importlib, json, os, sys
sys.path[:0] = ["/repo", "/verif"]
rows = []
for i in range(1, 21):
    pid = "C%02d" % i
    mod = importlib.import_module("mon.props." + pid.lower())
    ev = json.load(open("/verif/evidence/%s.json" % pid))
    cov = ev["coverage"]
    b = mod.BUDGET
    cnt = cov.get("monitor_counters", {})
    keys = [k for k in cnt if not k.startswith(("violation_kind", "violations_by", "rejected_class", "not_rejected", "rejected@"))]
    top = ", ".join("%s=%s" % (k, cnt[k]) for k in sorted(keys, key=lambda k: -cnt[k] if isinstance(cnt[k], (int, float)) else 0)[:4])
    rows.append("| %s | %s | %d / %d | %d | %d | %s | %s |" % (
        pid, mod.TECHNIQUE.split(":")[0].replace("runtime ", ""), b["quick"]["cases"], b["thorough"]["cases"], cov["evaluations"],
        cov["distinct_nontrivial"], ", ".join("%s x%d" % kv for kv in (ev.get("known_finding_hits") or cov.get("known_finding_hits") or {}).items()) or "-", top))
print("| property | monitor | cases quick / thorough | oracle evaluations (quick, seed 0) | distinct non-trivial | known findings seen | largest monitor counters |")
print("|---|---|---|---|---|---|---|")
print("\n".join(rows))
