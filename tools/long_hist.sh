#!/bin/sh
# runs only the long-history cases (thorough tier, LEN_SCALE > 1) of the given properties for the first N blocks; prints violations / errors
# usage: tools/long_hist.sh <blocks> <seed> C01 C02 ...
cd "$(dirname "$0")/.."
B=$1; S=$2; shift 2
mkdir -p .work/lh
for P in "$@"; do
  for b in $(seq 0 $((B-1))); do for j in 0 1 2 3 4 5 6; do echo "$P $((b*70+63+j))"; done; done
done | xargs -P 14 -L 1 sh -c 'PYTHONPATH=/verif /venv/bin/python -m mon.worker $0 thorough '"$S"' 0 1 .work/lh/$0_$1.json $1 >/dev/null 2>&1; /venv/bin/python - .work/lh/$0_$1.json $0 $1 <<PY
import json,sys
r=json.load(open(sys.argv[1]))
for v in r["violations"]: print("VIOL",sys.argv[2],sys.argv[3],v["what"][:300])
for e in r["errors"]: print("ERR",sys.argv[2],sys.argv[3],e["trace"][-400:])
print("done",sys.argv[2],sys.argv[3],r["evaluations"],list(r["mech_hits"]))
PY'
