#!/venv/bin/python
"""tools/mut.py [--tests] [--save NAME] <file> <old> <new> [<file> <old> <new> ...] -- <check args>

Sensitivity harness for the monitors: makes a scratch worktree of /repo's HEAD under /tmp, applies literal
string replacements (each must match exactly once), optionally runs the repository's pinned suite on it,
runs ./check against it (MABWISER_REPO, no evidence written) and removes the worktree.  Never touches /repo.
--save NAME writes the resulting diff to /verif/seeded/NAME/patch.diff."""
import os
import subprocess
import sys
import tempfile


def main():
    args = sys.argv[1:]
    tests = save = None
    while args and args[0].startswith("--"):
        if args[0] == "--tests":
            tests = True
            args = args[1:]
        elif args[0] == "--save":
            save = args[1]
            args = args[2:]
        else:
            break
    sep = args.index("--")
    edits, check = args[:sep], args[sep + 1:]
    t = tempfile.mkdtemp(prefix="mabw_mut.", dir="/tmp")
    subprocess.run(["git", "-C", "/repo", "worktree", "add", "-q", "--detach", t, "HEAD"], check=True)
    rc = 2
    try:
        for i in range(0, len(edits), 3):
            f, old, new = edits[i], edits[i + 1], edits[i + 2]
            p = os.path.join(t, f)
            s = open(p).read()
            old, new = old.encode().decode("unicode_escape"), new.encode().decode("unicode_escape")
            if s.count(old) != 1:
                print("MUT: %r matches %d times in %s" % (old, s.count(old), f))
                return 2
            open(p, "w").write(s.replace(old, new))
        diff = subprocess.run(["git", "-C", t, "diff"], stdout=subprocess.PIPE).stdout.decode()
        if save:
            d = os.path.join("/verif/seeded", save)
            os.makedirs(d, exist_ok=True)
            open(os.path.join(d, "patch.diff"), "w").write(diff)
        if tests:
            r = subprocess.run(["/verif/tools/repo_tests.sh", t], stdout=subprocess.PIPE)
            print("TESTS:", r.stdout.decode().strip().splitlines()[-1])
        e = dict(os.environ, MABWISER_REPO=t, VERIF_NO_EVIDENCE="1")
        if check:
            r = subprocess.run(["/verif/check"] + check, env=e, cwd="/verif", stdout=subprocess.PIPE)
            out = r.stdout.decode().strip().splitlines()
            print("\n".join(l[:400] for l in out[-6:]))
            rc = r.returncode
            print("exit=%d" % rc)
    finally:
        subprocess.run(["git", "-C", "/repo", "worktree", "remove", "--force", t])
        subprocess.run(["git", "-C", "/repo", "worktree", "prune"])
    return rc


if __name__ == "__main__":
    sys.exit(main())
