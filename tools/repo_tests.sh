#!/bin/sh
# pinned suite of /repo (or the tree given as $1) with the verification guard OFF; expects 584 passed + 1 baseline failure
TREE=${1:-/repo}
cd "$TREE" && env -u MABWISER_VERIF OMP_NUM_THREADS=1 PYTHONPATH="$TREE" /venv/bin/python -m pytest -q -p no:cacheprovider -n 8 --dist loadfile tests 2>&1 | tail -4
