#!/bin/sh
# reverts each fix commit on a scratch worktree and runs the quick check(s) that must re-raise the violation
while read C PROPS; do
  for P in $PROPS; do
    R=$(/verif/tools/with_tree.sh revert $C -- $P 2>&1 | grep -E "^exit=|VIOLATION" | head -2 | tr '\n' ' ')
    echo "$C $P :: $R"
  done
done <<LIST
2633d4c C01 C06
7b11de1 C05 C06 C15
3e10198 C07
3caa3ab C09 C07
3b0f8c5 C04 C18
721708b C17
e8e8971 C17
3d42362 C02
d4fe745 C14
2ab3814 C15
1a94622 C08
LIST
