#!/bin/sh
# reverts each fix commit (or group of commits) on a scratch worktree of /repo HEAD and runs the quick check(s) that must re-raise it
run() { # $1 = commits (space separated, newest first), rest = properties
  COMMITS=$1; shift
  for P in "$@"; do
    T=$(mktemp -d /tmp/mabw_rev.XXXXXX)
    git -C /repo worktree add -q --detach "$T" HEAD
    OK=1
    for C in $COMMITS; do git -C "$T" revert --no-commit $C >/dev/null 2>&1 || OK=0; done
    if [ $OK = 1 ]; then
      R=$(cd /verif && MABWISER_REPO="$T" VERIF_NO_EVIDENCE=1 ./check $P 2>&1 | grep -E "VIOLATION" | head -1)
      echo "revert [$COMMITS] -> $P :: ${R:-NOT RE-RAISED}"
    else
      echo "revert [$COMMITS] -> $P :: revert does not apply cleanly"
    fi
    git -C /repo worktree remove --force "$T"; git -C /repo worktree prune
  done
}
run 2633d4c C01
run 7b11de1 C05 C15
run 3e10198 C07
run 3caa3ab C09 C07
run 3b0f8c5 C04 C18
run 721708b C17
run e8e8971 C17
run 3d42362 C02
run d4fe745 C14
run 2ab3814 C15
run 1a94622 C08
run c5da52e C17
run af012bc C17
run f2c727c C17
run "c0b6a38 ce960b9" C15 C16
run c0b6a38 C15
run ad377e4 C18
