#!/bin/sh
# runs, for every stored seeded change, the check recorded in its meta.json as 'regression_check' (the property's own quick check if that
# catches it, otherwise the check that does) against a scratch worktree with the patch applied; prints
# one line per seeded change. A change whose own demonstration no longer fails on HEAD + patch is reported as NEUTRALISED (a later fix
# removed the path it needs).  Usage: tools/seed_all.sh [tier]
TIER=${1:-quick}
cd "$(dirname "$0")/.."
for D in "$(pwd)"/seeded/*/; do
  ID=$(basename $D)
  P=$(/venv/bin/python -c "import json;m=json.load(open('$D/meta.json'));r=m.get('regression_check') or {};print(r.get('property') or m['breaks_property'])")
  RT=$(/venv/bin/python -c "import json;m=json.load(open('$D/meta.json'));r=m.get('regression_check') or {};print(r.get('tier') or 'quick')")
  [ "$TIER" = "quick" ] && [ "$RT" = "thorough" ] && { echo "$ID $P SKIPPED(thorough tier only)"; continue; }
  T=$(mktemp -d /tmp/mabw_seedall.XXXXXX)
  git -C /repo worktree add -q --detach "$T" HEAD
  if git -C $T apply $D/patch.diff 2>/dev/null || git -C $T apply -3 $D/patch.diff 2>/dev/null; then
    (cd $T && OMP_NUM_THREADS=1 PYTHONPATH=$T timeout 600 /venv/bin/python $D/demo.py >/dev/null 2>&1); DRC=$?
    OUT=$(MABWISER_REPO=$T VERIF_NO_EVIDENCE=1 ./check $P --tier $TIER 2>&1); RC=$?
    NOTE=""; [ $DRC -eq 0 ] && NOTE="NEUTRALISED(demo passes on HEAD+patch) "
    echo "$ID $P $TIER exit=$RC $NOTE$(echo "$OUT" | grep -m1 -A1 VIOLATION | tail -1 | cut -c1-160)"
  else
    echo "$ID $P PATCH-DOES-NOT-APPLY"
  fi
  git -C /repo worktree remove --force "$T"; git -C /repo worktree prune
done
