#!/bin/sh
# tools/seed_check.sh <seed-id> <property> [quick|thorough] [note]  : run one check against a stored seeded change, append the outcome to its confirm.log
ID=$1; P=$2; TIER=${3:-quick}; NOTE=${4:-recheck}
D=/verif/seeded/$ID
T=$(mktemp -d /tmp/mabw_seed.XXXXXX)
git -C /repo worktree add -q --detach "$T" HEAD
git -C $T apply $D/patch.diff || echo "PATCH DOES NOT APPLY"
OUT=$(cd /verif && MABWISER_REPO=$T VERIF_NO_EVIDENCE=1 ./check $P --tier $TIER 2>&1); RC=$?
echo "check $P $TIER [$NOTE] on changed tree: exit $RC :: $(echo "$OUT" | grep -m1 -A1 VIOLATION | tr '\n' ' ' | cut -c1-300)" | tee -a $D/confirm.log
git -C /repo worktree remove --force "$T"; git -C /repo worktree prune
