#!/bin/sh
# tools/seed_confirm.sh <seed-id> <worktree-of-agent> <property> [more properties...]
# Confirms a seeded change independently (demo passes clean / fails changed, pinned suite still passes) in a scratch
# worktree, stores patch + demo under /verif/seeded/<seed-id>/ and runs the quick checks of the given properties against it.
ID=$1; SRC=$2; shift 2
D=/verif/seeded/$ID; mkdir -p $D
git -C $SRC diff > $D/patch.diff
cp $SRC/demo_*.py $D/demo.py 2>/dev/null
T=$(mktemp -d /tmp/mabw_seed.XXXXXX)
git -C /repo worktree add -q --detach "$T" HEAD
L=$D/confirm.log; : > $L
run_demo() { (cd $T && OMP_NUM_THREADS=1 PYTHONPATH=$T timeout 600 /venv/bin/python $D/demo.py >/dev/null 2>&1; echo $?); }
echo "demo on clean tree: exit $(run_demo)" | tee -a $L
git -C $T apply $D/patch.diff || echo "PATCH DOES NOT APPLY" | tee -a $L
echo "demo on changed tree: exit $(run_demo)" | tee -a $L
echo "pinned suite on changed tree: $(/verif/tools/repo_tests.sh $T | tail -1)" | tee -a $L
for P in "$@"; do
  OUT=$(cd /verif && MABWISER_REPO=$T VERIF_NO_EVIDENCE=1 ./check $P 2>&1); RC=$?
  echo "check $P quick on changed tree: exit $RC :: $(echo "$OUT" | grep -m1 -A1 VIOLATION | tr '\n' ' ' | cut -c1-300)" | tee -a $L
done
git -C /repo worktree remove --force "$T"; git -C /repo worktree prune
