#!/venv/bin/python
"""tools/seed_meta.py <seed-id> <property> <origin> <needs...>   writes /verif/seeded/<id>/meta.json from confirm.log"""
import json, os, sys, re
sid, prop, origin, needs = sys.argv[1], sys.argv[2], sys.argv[3], " ".join(sys.argv[4:])
d = os.path.join("/verif/seeded", sid)
log = open(os.path.join(d, "confirm.log")).read().strip().splitlines() if os.path.exists(os.path.join(d, "confirm.log")) else []
checks = {}
for l in log:
    m = re.match(r"check (C\d+) (\w+)( \[[^\]]*\])? on changed tree: exit (\d+)", l)
    if m:
        checks[m.group(1) + ":" + m.group(2) + (m.group(3) or "")] = "caught (exit 1)" if m.group(4) == "1" else "not caught (exit %s)" % m.group(4)
meta = {"id": sid, "breaks_property": prop, "origin": origin, "needs_to_manifest": needs,
        "files": {"patch": "patch.diff", "demonstration": "demo.py (exit 0 / PASS on the unchanged tree, exit 1 / FAIL with the patch)"},
        "confirmed_by_me": [l for l in log if not l.startswith("check ")],
        "how_confirmed": "tools/seed_confirm.sh: scratch git worktree of /repo HEAD under /tmp; demo on clean tree, git apply patch.diff, demo again, "
                         "pinned suite (tools/repo_tests.sh) on the changed tree, then ./check <property> with MABWISER_REPO pointing at the changed tree; worktree removed afterwards",
        "checks_run_against_it": checks}
if os.path.exists(os.path.join(d, "meta.json")):
    old = json.load(open(os.path.join(d, "meta.json")))
    old_checks = old.get("checks_run_against_it", {})
    old_checks.update(checks)
    meta["checks_run_against_it"] = old_checks
    for k in ("notes",):
        if k in old:
            meta[k] = old[k]
json.dump(meta, open(os.path.join(d, "meta.json"), "w"), indent=1)
print(sid, meta["checks_run_against_it"])
