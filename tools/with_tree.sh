#!/bin/sh
# tools/with_tree.sh (revert <commit> | patch <file.diff>) -- <check args...>
# Runs ./check against a scratch worktree of /repo's HEAD with one fix commit reverted or one patch applied.
# Never touches /repo's working tree or the evidence files; removes the worktree afterwards.
set -e
MODE=$1; ARG=$2; shift 2; [ "$1" = "--" ] && shift
T=$(mktemp -d /tmp/mabw_tree.XXXXXX)
git -C /repo worktree add -q --detach "$T" HEAD
cleanup() { git -C /repo worktree remove --force "$T" >/dev/null 2>&1 || rm -rf "$T"; git -C /repo worktree prune; }
trap cleanup EXIT
case "$MODE" in
  revert) git -C "$T" revert --no-commit "$ARG" >/dev/null ;;
  patch)  git -C "$T" apply "$ARG" ;;
  none) ;;
  *) echo "mode?"; exit 2 ;;
esac
cd /verif
set +e
MABWISER_REPO="$T" VERIF_NO_EVIDENCE=1 ./check "$@"
RC=$?
echo "exit=$RC"
exit $RC
